// Command chunks drives C03: every front-end x every chunking on the same input.
//
//	chunks gen  -states st.ndjson -cuts cuts.ndjson [-lits lits.ndjson] -n N   > cases.ndjson
//	chunks exec                                                               < cases.ndjson > trace.ndjson
package main

import (
	"crypto/sha1"
	"encoding/hex"
	"bytes"
	"bufio"
	"encoding/json"
	"flag"
	"fmt"
	"math/rand"
	"os"
	"runtime"
	"sort"
	"strconv"
	"strings"
	"sync"
	"time"

	"github.com/ohler55/ojg/gen"
	"github.com/ohler55/ojg/oj"
	"github.com/ohler55/ojg/sen"

	"verif/harness/absval"
	"verif/harness/plib"
)

type ccase struct {
	B      []int    `json:"b"`
	Pad    int      `json:"pad,omitempty"` // this many spaces are put in front of b when the real code is called
	Kind   string   `json:"kind"`          // json | sen | multi | senmulti
	Chunks []string `json:"chunks"`
	Src    string   `json:"src,omitempty"`
}

type sgroup struct {
	Fam string   `json:"fam"`
	As  []string `json:"as"`
	R   int      `json:"r"`
	V   any      `json:"v,omitempty"`
	M   string   `json:"m,omitempty"`
}

type mgroup struct {
	Fam  string   `json:"fam"`
	As   []string `json:"as"`
	Err  bool     `json:"err"`
	Docs []any    `json:"docs"`
	P    string   `json:"p,omitempty"`
}

type tline struct {
	B    []int    `json:"b"`
	Pad  int      `json:"pad,omitempty"`
	Kind string   `json:"kind"`
	Src  string   `json:"src,omitempty"`
	O    []sgroup `json:"o"`
	M    []mgroup `json:"m"`
}

var vopt = absval.Opt{AlwaysDec: true, FloatExact: true, FloatMid: true}

// encv projects a value for the trace. TLC's JSON reader stops at 255 levels of nesting, so the projection of a deeply nested
// value is replaced by a fingerprint of its canonical encoding (equal fingerprints = equal projections; the deep family
// uses leaves with one representation only, so a difference of representation cannot hide in it).
func encv(v any) any {
	pv := vopt.Encode(v)
	if nesting(pv) <= 120 {
		return pv
	}
	jb, _ := json.Marshal(pv)
	sum := sha1.Sum(jb)
	return map[string]any{"t": "deep", "h": hex.EncodeToString(sum[:10]), "n": len(jb)}
}

func nesting(v any) int {
	d := 0
	switch t := v.(type) {
	case map[string]any:
		for _, e := range t {
			if k := nesting(e); d < k {
				d = k
			}
		}
		return d + 1
	case []any:
		for _, e := range t {
			if k := nesting(e); d < k {
				d = k
			}
		}
		return d + 1
	}
	return 0
}

func main() {
	switch os.Args[1] {
	case "gen":
		genCases(os.Args[2:])
	case "exec":
		execCases()
	default:
		os.Exit(2)
	}
}

func readLines(f *os.File, fn func([]byte)) {
	sc := bufio.NewScanner(f)
	sc.Buffer(make([]byte, 1<<20), 1<<28)
	for sc.Scan() {
		if len(sc.Bytes()) > 0 {
			fn(append([]byte{}, sc.Bytes()...))
		}
	}
}

func seed() int64 {
	s, _ := strconv.ParseInt(os.Getenv("VERIF_SEED"), 10, 64)
	if s == 0 {
		s = 1
	}
	return s
}

// ---------------------------------------------------------------- generation
var stdChunks = []string{"whole", "1", "2", "3", "7", "half", "dataerr", "dataerr:1", "dataerr:3"}

func genCases(args []string) {
	fs := flag.NewFlagSet("gen", flag.ExitOnError)
	stf := fs.String("states", "", "model states (JsonTextGen)")
	cutf := fs.String("cuts", "", "compositions emitted by TLC (Chunking)")
	litf := fs.String("lits", "", "literals emitted by TLC (JsonValueGen), sampled")
	n := fs.Int("n", 500, "random documents per family")
	thorough := fs.Bool("thorough", false, "")
	fs.Parse(args)
	r := rand.New(rand.NewSource(seed()))
	out := bufio.NewWriterSize(os.Stdout, 1<<20)
	defer out.Flush()
	cuts := map[int][]string{}
	if f, err := os.Open(*cutf); err == nil {
		readLines(f, func(l []byte) {
			var c struct {
				N    int   `json:"n"`
				Cuts []int `json:"cuts"`
			}
			json.Unmarshal(l, &c)
			if len(c.Cuts) > 1 {
				parts := make([]string, len(c.Cuts))
				for i, x := range c.Cuts {
					parts[i] = strconv.Itoa(x)
				}
				cuts[c.N] = append(cuts[c.N], "sizes:"+strings.Join(parts, ","))
			}
		})
		for k := range cuts {
			sort.Strings(cuts[k])
		}
	}
	seen := map[string]bool{}
	emit := func(b []byte, kind, src string, pad int, chunks []string) {
		key := kind + "/" + strconv.Itoa(pad) + "/" + string(b)
		if seen[key] {
			return
		}
		seen[key] = true
		out.Write(plib.MarshalLine(ccase{B: plib.Ints(b), Pad: pad, Kind: kind, Chunks: chunks, Src: src}))
	}
	chunksFor := func(b []byte) []string {
		cs := append([]string{}, stdChunks...)
		if all, ok := cuts[len(b)]; ok {
			cs = append(cs, all...) // every composition, TLC-enumerated
		} else if len(b) <= 40 {
			for k := 1; k < len(b); k++ {
				cs = append(cs, "split:"+strconv.Itoa(k)) // every 2-way split
			}
		} else {
			for k := 0; k < 6; k++ {
				cs = append(cs, "split:"+strconv.Itoa(1+r.Intn(len(b)-1)))
			}
		}
		return cs
	}
	// (1) the transition cover of JsonText: short inputs, every composition
	if f, err := os.Open(*stf); err == nil {
		type state struct {
			Key string `json:"key"`
			Pc  string `json:"pc"`
			W   []int  `json:"w"`
			C   []int  `json:"c"`
		}
		best := map[string]state{}
		readLines(f, func(l []byte) {
			var s state
			json.Unmarshal(l, &s)
			if s.Pc == "Err" || s.Pc == "Cut" {
				return
			}
			if b, ok := best[s.Key]; !ok || len(s.W) < len(b.W) {
				best[s.Key] = s
			}
		})
		keys := make([]string, 0, len(best))
		for k := range best {
			keys = append(keys, k)
		}
		sort.Strings(keys)
		reps := []byte(" \n{}[],:\"\\/u0e1-+.tx\x80")
		for _, k := range keys {
			s := best[k]
			w, c := plib.Bytes(s.W), plib.Bytes(s.C)
			if len(w) > 0 && w[0] == 0xEF {
				continue
			}
			full := append(append([]byte{}, w...), c...)
			emit(full, "json", "cover", 0, chunksFor(full))
			emit(w, "json", "cover-eof", 0, chunksFor(w))
			for _, x := range reps {
				in := append(append(append([]byte{}, w...), x), c...)
				emit(in, "json", "cover-step", 0, chunksFor(in))
			}
		}
	}
	// (2) literals with long digit runs / escapes: splits inside numbers and escapes
	if f, err := os.Open(*litf); err == nil {
		k := 0
		step := 37
		if *thorough {
			step = 5
		}
		readLines(f, func(l []byte) {
			k++
			var lit struct {
				B []int `json:"b"`
			}
			json.Unmarshal(l, &lit)
			b := plib.Bytes(lit.B)
			// strings with an escaped surrogate half are always taken (the pending-half registers of the five automata are
			// per front-end code), everything else is sampled
			sur := bytes.Contains(b, []byte("\\uD")) || bytes.Contains(b, []byte("\\ud"))
			if k%step != 0 && !(sur && (*thorough || len(b) <= 22)) {
				return
			}
			docs := [][]byte{b, []byte("[" + string(b) + "," + string(b) + "]"), []byte("{\"a\":" + string(b) + "}")}
			d := docs[k%len(docs)]
			emit(d, "json", "lit", 0, chunksFor(d))
		})
	}
	// (2a) decimals with 15-19 significant digits and no exponent, up to 9-10 digits on each side of the point: the band in which an
	// integer-accumulating fast path (float64(I*Div+Frac)/float64(Div)) rounds twice and lands one ulp beside the correctly rounded
	// value in about one literal of a hundred - every front-end has its own accumulator
	nlit := 600
	if *thorough {
		nlit = 12000
	}
	for k := 0; k < nlit; k++ {
		ni, nf := 6+r.Intn(5), 7+r.Intn(4)
		ds := make([]byte, 0, 24)
		if r.Intn(4) == 0 {
			ds = append(ds, '-')
		}
		ds = append(ds, byte('1'+r.Intn(9)))
		for i := 1; i < ni; i++ {
			ds = append(ds, byte('0'+r.Intn(10)))
		}
		ds = append(ds, '.')
		for i := 0; i < nf; i++ {
			ds = append(ds, byte('0'+r.Intn(10)))
		}
		docs := [][]byte{ds, []byte("[" + string(ds) + "]"), []byte("{\"a\":" + string(ds) + ",\"b\":1}")}
		d := docs[k%len(docs)]
		emit(d, "json", "lit-dec", 0, chunksFor(d))
	}
	// (2b) deep nesting: container stacks kept as bit masks or fixed tables show beyond 64 / 128 / 256 open containers
	for _, depth := range []int{40, 63, 64, 65, 66, 100, 129, 257, 300} {
		if !*thorough && (depth == 40 || depth == 100 || depth == 257) {
			continue
		}
		for pat := 0; pat < 5; pat++ {
			var open, closers []byte
			for i := 0; i < depth; i++ {
				obj := false
				switch pat {
				case 1:
					obj = true
				case 2:
					obj = i == 0 // an object outermost, arrays inside
				case 3:
					obj = i%2 == 0
				case 4:
					obj = i >= depth/2
				}
				if obj {
					open = append(open, []byte("{\"k\":")...)
					closers = append([]byte("}"), closers...)
				} else {
					open = append(open, '[')
					closers = append([]byte("]"), closers...)
				}
			}
			for _, leaf := range []string{"1", "\"x\"", "{\"a\":true}", "[]"} {
				d := append(append(append([]byte{}, open...), leaf...), closers...)
				emit(d, "json", "deep", 0, []string{"whole", "1", "7", "half", "dataerr:3"})
				if pat == 2 && leaf == "1" {
					// closed with the wrong kind of bracket at the outermost level
					bad := append([]byte{}, d...)
					bad[len(bad)-1] = ']'
					emit(bad, "json", "deep-mut", 0, []string{"whole", "1"})
				}
			}
		}
	}
	// (3) random JSON documents and mutations; (4) aligned to the 4096/8192-byte refill
	g := &jgen{r: r}
	for i := 0; i < *n; i++ {
		var sb strings.Builder
		g.value(&sb, 1+r.Intn(3))
		b := []byte(sb.String())
		emit(b, "json", "rand", 0, chunksFor(b))
		m := g.mutate(b)
		emit(m, "json", "rand-mut", 0, chunksFor(m))
		if i%4 == 0 && len(b) > 1 && len(b) < 120 {
			// every offset of the document on the refill boundary: pad + offset == 4096 (and 8192)
			for off := 0; off <= len(b); off++ {
				emit(b, "json", "align4096", 4096-off, []string{"whole", "half"})
				if *thorough {
					emit(b, "json", "align8192", 8192-off, []string{"whole"})
					emit(m, "json", "align4096-mut", 4096-off%(len(m)+1), []string{"whole"})
				}
			}
		}
	}
	// (5) multi-document streams
	seps := []string{"", " ", "\n", " \n "}
	for i := 0; i < *n; i++ {
		nd := 2 + r.Intn(3)
		var sb strings.Builder
		for d := 0; d < nd; d++ {
			if d > 0 {
				sb.WriteString(seps[r.Intn(len(seps))])
			}
			g.value(&sb, r.Intn(3))
		}
		b := []byte(sb.String())
		emit(b, "multi", "multi", 0, chunksFor(b))
		if i%3 == 0 {
			m := g.mutate(b)
			emit(m, "multi", "multi-mut", 0, chunksFor(m))
		}
	}
	// (6) SEN documents
	sg := &sgen{r: r}
	for i := 0; i < *n; i++ {
		var sb strings.Builder
		sg.value(&sb, 1+r.Intn(3))
		b := []byte(sb.String())
		emit(b, "sen", "sen:"+senTag(b), 0, chunksFor(b))
		m := g.mutate(b)
		emit(m, "sen", "sen-mut", 0, chunksFor(m))
		if i%5 == 0 {
			var sb2 strings.Builder
			sg.value(&sb2, 1)
			sb2.WriteString(seps[1+r.Intn(3)])
			sg.value(&sb2, 1)
			b2 := []byte(sb2.String())
			emit(b2, "senmulti", "sen-multi:"+senTag(b2), 0, chunksFor(b2))
		}
		if i%8 == 0 && len(b) > 1 && len(b) < 100 {
			for off := 0; off <= len(b); off++ {
				emit(b, "sen", "sen-align4096:"+senTag(b), 4096-off, []string{"whole"})
			}
		}
	}
}

type jgen struct{ r *rand.Rand }

func (g *jgen) ws(sb *strings.Builder) {
	for g.r.Intn(4) == 0 {
		sb.WriteByte(" \n\t\r"[g.r.Intn(4)])
	}
}

func (g *jgen) str(sb *strings.Builder) {
	sb.WriteByte('"')
	n := g.r.Intn(6)
	for i := 0; i < n; i++ {
		switch g.r.Intn(8) {
		case 0:
			sb.WriteByte('\\')
			sb.WriteByte("\"\\/bfnrt"[g.r.Intn(8)])
		case 1:
			fmt.Fprintf(sb, "\\u%04x", []int{0x41, 0xe9, 0x20ac, 0xd83d, 0xde00, 0x0}[g.r.Intn(6)])
		case 2:
			sb.WriteString([]string{"é", "€", "😀", "\x80", "\ufeff", "\ufeffab", "\xef\xbb"}[g.r.Intn(7)])
		default:
			c := byte(0x20 + g.r.Intn(0x5f))
			if c == '"' || c == '\\' {
				c = 'a'
			}
			sb.WriteByte(c)
		}
	}
	sb.WriteByte('"')
}

func (g *jgen) num(sb *strings.Builder) {
	if g.r.Intn(3) == 0 {
		sb.WriteByte('-')
	}
	nd := 1 + g.r.Intn(4)
	if g.r.Intn(5) == 0 {
		nd = 15 + g.r.Intn(10)
	}
	sb.WriteByte(byte('1' + g.r.Intn(9)))
	for i := 1; i < nd; i++ {
		sb.WriteByte(byte('0' + g.r.Intn(10)))
	}
	if g.r.Intn(3) == 0 {
		sb.WriteByte('.')
		nf := 1 + g.r.Intn(4)
		if g.r.Intn(5) == 0 {
			nf = 15 + g.r.Intn(10)
		}
		for i := 0; i < nf; i++ {
			sb.WriteByte(byte('0' + g.r.Intn(10)))
		}
	}
	if g.r.Intn(4) == 0 {
		sb.WriteByte("eE"[g.r.Intn(2)])
		if g.r.Intn(2) == 0 {
			sb.WriteByte("+-"[g.r.Intn(2)])
		}
		sb.WriteString(strconv.Itoa(g.r.Intn(30)))
	}
}

func (g *jgen) value(sb *strings.Builder, depth int) {
	k := g.r.Intn(10)
	if depth <= 0 && k >= 6 {
		k = g.r.Intn(6)
	}
	switch k {
	case 0:
		sb.WriteString("null")
	case 1:
		sb.WriteString("true")
	case 2:
		sb.WriteString("false")
	case 3, 4:
		g.num(sb)
	case 5:
		g.str(sb)
	case 6, 7:
		sb.WriteByte('[')
		n := g.r.Intn(4)
		for i := 0; i < n; i++ {
			if i > 0 {
				sb.WriteByte(',')
			}
			g.ws(sb)
			g.value(sb, depth-1)
			g.ws(sb)
		}
		sb.WriteByte(']')
	default:
		sb.WriteByte('{')
		n := g.r.Intn(4)
		for i := 0; i < n; i++ {
			if i > 0 {
				sb.WriteByte(',')
			}
			g.ws(sb)
			g.str(sb)
			g.ws(sb)
			sb.WriteByte(':')
			g.ws(sb)
			g.value(sb, depth-1)
			g.ws(sb)
		}
		sb.WriteByte('}')
	}
}

var structural = []byte(",:\"]}[{-+.0 1eEntf\\/u\n'()#*")

func (g *jgen) mutate(b []byte) []byte {
	if len(b) == 0 {
		return []byte{structural[g.r.Intn(len(structural))]}
	}
	b = append([]byte{}, b...)
	i := g.r.Intn(len(b))
	switch g.r.Intn(5) {
	case 0:
		return append(b[:i], b[i+1:]...)
	case 1:
		return append(b[:i], append([]byte{structural[g.r.Intn(len(structural))]}, b[i:]...)...)
	case 2:
		b[i] = structural[g.r.Intn(len(structural))]
	case 3:
		b[i] = byte(g.r.Intn(256))
	default:
		return b[:i]
	}
	return b
}

// senTag names the SEN features a generated document uses; it is part of the locus of a deviation so that a known
// gap of one feature (e.g. the tokenizer has no + concatenation) cannot hide a defect in plain documents.
func senTag(b []byte) string {
	s := string(b)
	var fs []string
	if strings.Contains(s, "+") && (strings.Contains(s, "\" +") || strings.Contains(s, "' +")) {
		fs = append(fs, "plus")
	}
	for _, f := range []string{"ISODate(", "NumberLong(", "ObjectId(", "NumberDecimal("} {
		if strings.Contains(s, f) {
			fs = append(fs, "func")
			break
		}
	}
	if strings.Contains(s, "//") || strings.Contains(s, "/*") {
		fs = append(fs, "comment")
	}
	if strings.Contains(s, "`") {
		fs = append(fs, "raw")
	}
	if len(fs) == 0 {
		return "plain"
	}
	return strings.Join(fs, "+")
}

// SEN documents: bare tokens, ' and " strings, optional commas, comments, + concatenation, token functions.
type sgen struct{ r *rand.Rand }

func (g *sgen) sep(sb *strings.Builder) {
	switch g.r.Intn(6) {
	case 0:
		sb.WriteString(", ")
	case 1:
		sb.WriteString("\n")
	case 2:
		sb.WriteString(" // c\n")
	case 3:
		sb.WriteString(" /* c */ ")
	default:
		sb.WriteString(" ")
	}
}

func (g *sgen) str(sb *strings.Builder) {
	words := []string{"abc", "a1", "x-y", "k_9", "true1", "nul", "ab.cd", "Z"}
	switch g.r.Intn(6) {
	case 0:
		sb.WriteString("'" + words[g.r.Intn(len(words))] + " \\n\\'q'")
	case 1:
		sb.WriteString("\"" + words[g.r.Intn(len(words))] + "\\u00e9\\t\"")
	case 2:
		sb.WriteString("\"a\" + 'b' +\n\"c\"")
	case 3:
		sb.WriteString("`raw`")
	default:
		sb.WriteString(words[g.r.Intn(len(words))])
	}
}

func (g *sgen) value(sb *strings.Builder, depth int) {
	k := g.r.Intn(11)
	if depth <= 0 && k >= 7 {
		k = g.r.Intn(7)
	}
	switch k {
	case 0:
		sb.WriteString("null")
	case 1:
		sb.WriteString([]string{"true", "false"}[g.r.Intn(2)])
	case 2, 3:
		(&jgen{r: g.r}).num(sb)
	case 4, 5:
		g.str(sb)
	case 6:
		sb.WriteString([]string{"ISODate(\"2021-03-05T10:11:12Z\")", "NumberLong(\"123\")", "ObjectId(\"1234\")", "NumberDecimal(\"1.5\")"}[g.r.Intn(4)])
	case 7, 8:
		sb.WriteByte('[')
		n := g.r.Intn(4)
		for i := 0; i < n; i++ {
			if i > 0 {
				g.sep(sb)
			}
			g.value(sb, depth-1)
		}
		sb.WriteByte(']')
	default:
		sb.WriteByte('{')
		n := g.r.Intn(4)
		for i := 0; i < n; i++ {
			if i > 0 {
				g.sep(sb)
			}
			g.str(sb)
			sb.WriteString([]string{":", ": ", " : "}[g.r.Intn(3)])
			g.value(sb, depth-1)
		}
		sb.WriteByte('}')
	}
}

// ---------------------------------------------------------------- execution
func simplify(v any) any {
	if n, ok := v.(gen.Node); ok && n != nil {
		return n.Simplify()
	}
	return v
}

type obs struct {
	fam, api string
	r        int
	v        any
	msg      string
}

func single(in []byte, kind string, chunks []string) []sgroup {
	var all []obs
	add := func(fam, api, chunk string) {
		o := plib.Call(api, chunk, in, true)
		v := o.Value
		if o.R == 1 && strings.HasPrefix(api, "gen.") {
			v = simplify(v)
		}
		all = append(all, obs{fam: fam, api: o.API, r: o.R, v: v, msg: o.Msg})
	}
	if kind == "json" {
		add("J", "oj.Parse", "")
		add("J", "oj.Tokenize1", "")
		add("J", "gen.Parse", "")
	}
	add("S", "sen.Parse", "")
	add("S", "sen.Tokenize1", "")
	for _, c := range chunks {
		if kind == "json" {
			add("J", "oj.ParseReader", c)
			add("J", "oj.TokenizeLoad1", c)
			add("J", "gen.ParseReader", c)
		}
		add("S", "sen.ParseReader", c)
		add("S", "sen.TokenizeLoad1", c)
	}
	idx := map[string]int{}
	gs := []sgroup{}
	for _, o := range all {
		var pv any
		key := o.fam + strconv.Itoa(o.r)
		if o.r == 1 {
			pv = encv(o.v)
			jb, _ := json.Marshal(pv)
			key += string(jb)
		}
		if i, ok := idx[key]; ok {
			gs[i].As = append(gs[i].As, o.api)
		} else {
			idx[key] = len(gs)
			g := sgroup{Fam: o.fam, As: []string{o.api}, R: o.r, V: pv}
			if o.r == 2 {
				g.M = o.msg
			}
			gs = append(gs, g)
		}
	}
	return gs
}

type mobs struct {
	fam, api string
	err      bool
	docs     []any
	pan      string
}

func multiCall(fam, api, chunk string, in []byte) (m mobs) {
	m.fam, m.api = fam, api
	if chunk != "" {
		m.api = api + "@" + chunk
	}
	defer func() {
		if x := recover(); x != nil {
			m.pan = fmt.Sprintf("%T: %v", x, x)
		}
	}()
	b := append([]byte{}, in...)
	var docs []any
	cb := func(v any) { docs = append(docs, encv(v)) }
	cbb := func(v any) bool { docs = append(docs, encv(v)); return false }
	var err error
	switch api {
	case "oj.Parse+cb":
		p := oj.Parser{}
		_, err = p.Parse(b, cb)
	case "oj.Parse+cbbool":
		p := oj.Parser{}
		_, err = p.Parse(b, cbb)
	case "oj.Parse+chan", "oj.ParseReader+chan", "sen.Parse+chan":
		ch := make(chan any, 1000)
		switch api {
		case "oj.Parse+chan":
			p := oj.Parser{}
			_, err = p.Parse(b, ch)
		case "oj.ParseReader+chan":
			p := oj.Parser{}
			_, err = p.ParseReader(plib.Chunked(b, chunk), ch)
		default:
			p := sen.Parser{}
			_, err = p.Parse(b, ch)
		}
		close(ch)
		for v := range ch {
			docs = append(docs, encv(v))
		}
	case "oj.ParseReader+cb":
		p := oj.Parser{}
		_, err = p.ParseReader(plib.Chunked(b, chunk), cb)
	case "oj.Tokenize":
		h := &plib.BuildHandler{}
		err = oj.Tokenize(b, h)
		for _, d := range h.Docs() {
			docs = append(docs, encv(d))
		}
	case "oj.TokenizeLoad":
		h := &plib.BuildHandler{}
		err = oj.TokenizeLoad(plib.Chunked(b, chunk), h)
		for _, d := range h.Docs() {
			docs = append(docs, encv(d))
		}
	case "gen.Parse+cb":
		p := gen.Parser{}
		_, err = p.Parse(b, func(n gen.Node) bool { docs = append(docs, encv(simplify(n))); return false })
	case "gen.ParseReader+cb":
		p := gen.Parser{}
		_, err = p.ParseReader(plib.Chunked(b, chunk), func(n gen.Node) bool { docs = append(docs, encv(simplify(n))); return false })
	case "sen.Parse+cb":
		p := sen.Parser{}
		_, err = p.Parse(b, cb)
	case "sen.ParseReader+cb":
		p := sen.Parser{}
		_, err = p.ParseReader(plib.Chunked(b, chunk), cb)
	case "sen.Tokenize":
		h := &plib.BuildHandler{}
		err = sen.Tokenize(b, h)
		for _, d := range h.Docs() {
			docs = append(docs, encv(d))
		}
	case "sen.TokenizeLoad":
		h := &plib.BuildHandler{}
		err = sen.TokenizeLoad(plib.Chunked(b, chunk), h)
		for _, d := range h.Docs() {
			docs = append(docs, encv(d))
		}
	default:
		panic("unknown multi api " + api)
	}
	m.err = err != nil
	m.docs = docs
	return
}

func multi(in []byte, kind string, chunks []string) []mgroup {
	var all []mobs
	if kind == "multi" {
		for _, a := range []string{"oj.Parse+cb", "oj.Parse+cbbool", "oj.Parse+chan", "oj.Tokenize", "gen.Parse+cb"} {
			all = append(all, multiCall("J", a, "", in))
		}
	}
	for _, a := range []string{"sen.Parse+cb", "sen.Parse+chan", "sen.Tokenize"} {
		all = append(all, multiCall("S", a, "", in))
	}
	for _, c := range chunks {
		if kind == "multi" {
			for _, a := range []string{"oj.ParseReader+cb", "oj.ParseReader+chan", "oj.TokenizeLoad", "gen.ParseReader+cb"} {
				all = append(all, multiCall("J", a, c, in))
			}
		}
		for _, a := range []string{"sen.ParseReader+cb", "sen.TokenizeLoad"} {
			all = append(all, multiCall("S", a, c, in))
		}
	}
	idx := map[string]int{}
	gs := []mgroup{}
	for _, o := range all {
		if o.docs == nil {
			o.docs = []any{}
		}
		jb, _ := json.Marshal(o.docs)
		key := fmt.Sprintf("%s/%v/%s/%s", o.fam, o.err, o.pan, jb)
		if i, ok := idx[key]; ok {
			gs[i].As = append(gs[i].As, o.api)
		} else {
			idx[key] = len(gs)
			gs = append(gs, mgroup{Fam: o.fam, As: []string{o.api}, Err: o.err || o.pan != "", Docs: o.docs, P: o.pan})
		}
	}
	return gs
}

func execCases() {
	var cases []ccase
	readLines(os.Stdin, func(l []byte) {
		var c ccase
		if err := json.Unmarshal(l, &c); err != nil {
			panic(err)
		}
		cases = append(cases, c)
	})
	res := make([][]byte, len(cases))
	var wg sync.WaitGroup
	var mu sync.Mutex
	cur := -1
	nw := runtime.NumCPU()
	started := make([]time.Time, nw)
	on := make([]int, nw)
	for w := 0; w < nw; w++ {
		wg.Add(1)
		go func(w int) {
			defer wg.Done()
			for {
				mu.Lock()
				cur++
				i := cur
				if i < len(cases) {
					started[w], on[w] = time.Now(), i
				} else {
					started[w] = time.Time{}
				}
				mu.Unlock()
				if i >= len(cases) {
					return
				}
				c := cases[i]
				in := append([]byte(strings.Repeat(" ", c.Pad)), plib.Bytes(c.B)...)
				t := tline{B: c.B, Pad: c.Pad, Kind: c.Kind, Src: c.Src, O: []sgroup{}, M: []mgroup{}}
				switch c.Kind {
				case "json", "sen":
					t.O = single(in, c.Kind, c.Chunks)
				case "multi", "senmulti":
					t.M = multi(in, c.Kind, c.Chunks)
				}
				res[i] = plib.MarshalLine(t)
			}
		}(w)
	}
	done := make(chan struct{})
	go func() { wg.Wait(); close(done) }()
	tick := time.NewTicker(time.Second)
loop:
	for {
		select {
		case <-done:
			break loop
		case <-tick.C:
			mu.Lock()
			for w := range started {
				if !started[w].IsZero() && time.Since(started[w]) > 30*time.Second {
					fmt.Fprintf(os.Stderr, "HANG %s\n", plib.MarshalLine(cases[on[w]]))
					os.Exit(3)
				}
			}
			mu.Unlock()
		}
	}
	out := bufio.NewWriterSize(os.Stdout, 1<<20)
	for _, l := range res {
		out.Write(l)
	}
	out.Flush()
}
