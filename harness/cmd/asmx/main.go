// Command asmx replays TLC-generated assembly plans into the real asm package (C20, C06).
//
//	asmx fns                          > fns.json      (function names and Desc strings from asm.FnDocs())
//	asmx exec  < cases.ndjson         > trace.ndjson  (each case {plan: tagged AST, root: tagged value, bare?: bool})
//
// Every plan is executed 5 times on fresh deep copies of the root (runs 1-3 on one Plan object,
// runs 4-5 on freshly built Plan objects), then rebuilt from Plan.String() (parsed with a fresh
// sen.Parser) and from Plan.Simplify() and executed once more each. Only observations are recorded;
// the verdicts are taken by the TLC trace specification TraceAsm.
package main

import (
	"bufio"
	"encoding/json"
	"fmt"
	"math"
	"os"
	"reflect"
	"runtime"
	"sort"
	"strconv"
	"strings"
	"sync"
	"time"

	"github.com/ohler55/ojg/asm"
	"github.com/ohler55/ojg/jp"
	"github.com/ohler55/ojg/sen"
)

type caseIn struct {
	ID    int            `json:"id"`
	Src   string         `json:"src,omitempty"`
	Plan  map[string]any `json:"plan"`
	Root  map[string]any `json:"root"`
	Root2 map[string]any `json:"root2,omitempty"` // a second, different root for the same Plan object
	Bare  bool           `json:"bare,omitempty"`
}

type run struct {
	R    string `json:"r,omitempty"` // ok | err | panic | unparsable | skip
	Root any    `json:"root,omitempty"`
	M    string `json:"m,omitempty"`
	Eq   int    `json:"eq,omitempty"` // 1: outcome and root identical to run 1 (grouping of identical observations)
}

type caseOut struct {
	ID   int            `json:"id"`
	Src  string         `json:"src,omitempty"`
	Plan map[string]any `json:"plan"`
	Root map[string]any `json:"root"`
	Bare bool           `json:"bare"`
	Runs []run          `json:"runs"`
	Str  run            `json:"str"`
	Simp run            `json:"simp"`
	Text string         `json:"text"`
	// PlanUnchanged observations: String() of the executed Plan object before the first and after the last Execute,
	// the executed object run once more on root2, and a freshly built plan on root2
	Text0    string `json:"text0"`
	Text1    string `json:"text1"`
	AltSame  run    `json:"alt_same"`
	AltFresh run    `json:"alt_fresh"`
}

func main() {
	if len(os.Args) < 2 {
		fmt.Fprintln(os.Stderr, "usage: asmx fns|exec")
		os.Exit(2)
	}
	switch os.Args[1] {
	case "fns":
		docs := asm.FnDocs()
		names := make([]string, 0, len(docs))
		for k := range docs {
			names = append(names, k)
		}
		sort.Strings(names)
		out := map[string]any{"names": names, "docs": docs}
		b, _ := json.Marshal(out)
		os.Stdout.Write(append(b, '\n'))
	case "exec":
		execCases()
	default:
		fmt.Fprintln(os.Stderr, "unknown mode", os.Args[1])
		os.Exit(2)
	}
}

// ---------------------------------------------------------------- tagged AST -> Go values
func num(x any) int64 {
	switch t := x.(type) {
	case float64:
		return int64(t)
	case json.Number:
		i, _ := t.Int64()
		return i
	}
	return 0
}

func bytesOf(x any) string {
	l, _ := x.([]any)
	b := make([]byte, len(l))
	for i, e := range l {
		b[i] = byte(num(e))
	}
	return string(b)
}

// PathText prints a tagged path the way a plan author writes it.
func pathText(n map[string]any) string {
	var sb strings.Builder
	if at, _ := n["at"].(bool); at {
		sb.WriteByte('@')
	} else {
		sb.WriteByte('$')
	}
	frs, _ := n["fr"].([]any)
	for _, f := range frs {
		fm := f.(map[string]any)
		switch fm["k"] {
		case "c":
			sb.WriteByte('.')
			sb.WriteString(fm["s"].(string))
		case "n":
			fmt.Fprintf(&sb, "[%d]", num(fm["i"]))
		case "w":
			sb.WriteString("[*]")
		case "d":
			sb.WriteString("..")
		}
	}
	s := sb.String()
	// "$..[*]" style is fine for jp; a descent directly followed by a child needs no extra dot
	return strings.ReplaceAll(s, "...", "..")
}

// toGo converts a tagged node into the raw value a plan author would write (what sen/oj parsing yields).
func toGo(n any) any {
	m, ok := n.(map[string]any)
	if !ok {
		panic(fmt.Sprintf("bad node %v", n))
	}
	switch m["t"] {
	case "null":
		return nil
	case "bool":
		return m["v"].(bool)
	case "int":
		return num(m["v"])
	case "bigint": // sign + decimal digits: an integer beyond TLC's range
		var sb strings.Builder
		if neg, _ := m["neg"].(bool); neg {
			sb.WriteByte('-')
		}
		ds, _ := m["d"].([]any)
		for _, d := range ds {
			sb.WriteByte(byte('0' + num(d)))
		}
		i, err := strconv.ParseInt(sb.String(), 10, 64)
		if err != nil {
			panic("bad bigint " + sb.String())
		}
		return i
	case "flt":
		q := m["q"].([]any)
		if nz, _ := m["nz"].(bool); nz {
			return math.Copysign(0, -1) // the literal -0.0
		}
		return float64(num(q[0])) / float64(int64(1)<<uint(num(q[1])))
	case "str":
		return bytesOf(m["v"])
	case "arr":
		l, _ := m["v"].([]any)
		r := make([]any, len(l))
		for i, e := range l {
			r[i] = toGo(e)
		}
		return r
	case "obj":
		r := map[string]any{}
		if mm, ok := m["m"].(map[string]any); ok {
			for k, e := range mm {
				r[k] = toGo(e)
			}
		}
		return r
	case "path":
		return pathText(m)
	case "call":
		l, _ := m["a"].([]any)
		r := make([]any, 0, len(l)+1)
		r = append(r, m["fn"].(string))
		for _, e := range l {
			r = append(r, toGo(e))
		}
		return r
	case "pair": // cond clause
		return []any{toGo(m["c"]), toGo(m["v"])}
	}
	panic(fmt.Sprintf("bad tag %v", m["t"]))
}

func deep(v any) any {
	switch t := v.(type) {
	case []any:
		r := make([]any, len(t))
		for i, e := range t {
			r[i] = deep(e)
		}
		return r
	case map[string]any:
		r := make(map[string]any, len(t))
		for k, e := range t {
			r[k] = deep(e)
		}
		return r
	}
	return v
}

// ---------------------------------------------------------------- Go values -> tagged observation
func enc(v any, depth int) any { return encp(v, depth, nil) }

// onPath reports whether the container v is already being encoded further up (a cyclic structure, e.g. after
// [setall "$.src.b[*]" $.src.b]); such a value is outside the value universe and is projected to "other".
func onPath(v any, path []uintptr) (uintptr, bool) {
	var p uintptr
	switch t := v.(type) {
	case []any:
		if len(t) == 0 {
			return 0, false
		}
		p = reflect.ValueOf(t).Pointer()
	case map[string]any:
		p = reflect.ValueOf(t).Pointer()
	}
	for _, x := range path {
		if x == p {
			return p, true
		}
	}
	return p, false
}

func encp(v any, depth int, path []uintptr) any {
	if depth > 24 {
		return map[string]any{"t": "other", "s": "too deep"}
	}
	if p, cyc := onPath(v, path); cyc {
		return map[string]any{"t": "other", "s": "cycle"}
	} else if p != 0 {
		path = append(path, p)
	}
	switch t := v.(type) {
	case nil:
		return map[string]any{"t": "null"}
	case bool:
		return map[string]any{"t": "bool", "v": t}
	case int64:
		return encInt(t)
	case int:
		return encInt(int64(t))
	case float64:
		if !math.IsInf(t, 0) && !math.IsNaN(t) {
			for k := 0; k <= 12; k++ {
				x := t * float64(int64(1)<<uint(k))
				if x == math.Trunc(x) && math.Abs(x) <= 1<<30 {
					return map[string]any{"t": "flt", "q": []int64{int64(x), int64(k)}}
				}
			}
		}
		return map[string]any{"t": "flt", "q": []int64{}, "s": strconv.FormatFloat(t, 'g', -1, 64)}
	case string:
		b := []byte(t)
		r := make([]int, len(b))
		for i, x := range b {
			r[i] = int(x)
		}
		return map[string]any{"t": "str", "v": r}
	case []any:
		r := make([]any, len(t))
		for i, e := range t {
			r[i] = encp(e, depth+1, path)
		}
		return map[string]any{"t": "arr", "v": r}
	case map[string]any:
		r := make(map[string]any, len(t))
		for k, e := range t {
			r[k] = encp(e, depth+1, path)
		}
		return map[string]any{"t": "obj", "m": r}
	}
	return map[string]any{"t": "other", "s": fmt.Sprintf("%T:%v", v, v)}
}

func encInt(i int64) any {
	if -(1<<30) <= i && i <= 1<<30 {
		return map[string]any{"t": "int", "v": i}
	}
	s := strconv.FormatInt(i, 10)
	neg := false
	if s[0] == '-' {
		neg, s = true, s[1:]
	}
	d := make([]int, len(s))
	for k := range s {
		d[k] = int(s[k] - '0')
	}
	return map[string]any{"t": "bigint", "neg": neg, "d": d}
}

// ---------------------------------------------------------------- execution
func execute(p *asm.Plan, root map[string]any) (r run) {
	defer func() {
		if x := recover(); x != nil {
			r = run{R: "panic", Root: enc(nil, 0), M: fmt.Sprintf("%T: %v", x, x)}
		}
	}()
	err := p.Execute(root)
	if err != nil {
		return run{R: "err", Root: enc(root, 0), M: clip(err.Error())}
	}
	return run{R: "ok", Root: enc(root, 0)}
}

func clip(s string) string {
	if len(s) > 160 {
		return s[:160]
	}
	return s
}

func build(raw any) (p *asm.Plan, fail *run) {
	defer func() {
		if x := recover(); x != nil {
			fail = &run{R: "panic", Root: enc(nil, 0), M: fmt.Sprintf("NewPlan %T: %v", x, x)}
		}
	}()
	l, ok := raw.([]any)
	if !ok {
		return nil, &run{R: "unparsable", Root: enc(nil, 0), M: fmt.Sprintf("not an array: %T", raw)}
	}
	return asm.NewPlan(deep(l).([]any)), nil
}

func one(c caseIn) caseOut {
	out := caseOut{ID: c.ID, Src: c.Src, Plan: c.Plan, Root: c.Root, Bare: c.Bare}
	raw := toGo(c.Plan).([]any)
	if c.Bare && len(raw) > 0 {
		raw = raw[1:]
	}
	root := toGo(c.Root).(map[string]any)
	fresh := func() map[string]any { return deep(root).(map[string]any) }
	// runs 1-3: one Plan object; runs 4-5: fresh Plan objects
	p, fail := build(raw)
	out.AltSame, out.AltFresh = run{R: "skip"}, run{R: "skip"}
	if fail == nil && p != nil {
		out.Text0 = planText(p)
	}
	for i := 0; i < 3; i++ {
		if fail != nil {
			out.Runs = append(out.Runs, *fail)
		} else {
			out.Runs = append(out.Runs, execute(p, fresh()))
		}
	}
	if c.Root2 != nil && fail == nil && p != nil {
		root2 := toGo(c.Root2).(map[string]any)
		out.AltSame = execute(p, deep(root2).(map[string]any))
		out.Text1 = planText(p)
		if pf, ff := build(raw); ff == nil && pf != nil {
			out.AltFresh = execute(pf, deep(root2).(map[string]any))
		} else if ff != nil {
			out.AltFresh = *ff
		}
	} else {
		out.Text1 = out.Text0
		if fail == nil && p != nil {
			out.Text1 = planText(p)
		}
	}
	for i := 0; i < 2; i++ {
		p2, fail2 := build(raw)
		if fail2 != nil {
			out.Runs = append(out.Runs, *fail2)
		} else {
			out.Runs = append(out.Runs, execute(p2, fresh()))
		}
	}
	// rebuilt from the printed form and from the simplified form (taken from a fresh, never executed plan)
	out.Str, out.Simp, out.Text = rebuilt(raw, fresh)
	// group identical observations: a run that equals run 1 is recorded as {eq:1}
	first, _ := json.Marshal(out.Runs[0])
	same := func(r run) bool {
		b, _ := json.Marshal(run{R: r.R, Root: r.Root, M: out.Runs[0].M})
		return string(b) == string(first)
	}
	for i := 1; i < len(out.Runs); i++ {
		if same(out.Runs[i]) {
			out.Runs[i] = run{Eq: 1}
		}
	}
	if same(out.Str) {
		out.Str = run{Eq: 1}
	}
	if same(out.Simp) {
		out.Simp = run{Eq: 1}
	}
	// the two runs on the second root: only their agreement matters; identical observations are grouped
	if out.AltSame.R != "skip" {
		a, _ := json.Marshal(run{R: out.AltSame.R, Root: out.AltSame.Root})
		b, _ := json.Marshal(run{R: out.AltFresh.R, Root: out.AltFresh.Root})
		if string(a) == string(b) {
			out.AltSame = run{R: out.AltSame.R, M: out.AltSame.M}
			out.AltFresh = run{Eq: 1}
		}
	}
	return out
}

// planText is the print form of a plan, Plan.Simplify() (what Plan.String() writes), rendered canonically: object
// members sorted (String() writes them in Go map order, which is not a change of the plan). A jp.Expr or *asm.Fn that
// sits inside an uncompiled list is marked: String() would write it as a list of fragments / a struct.
func planText(p *asm.Plan) (s string) {
	defer func() {
		if x := recover(); x != nil {
			s = fmt.Sprintf("<Simplify panics: %v>", x)
		}
	}()
	var sb strings.Builder
	canon(&sb, p.Simplify())
	return sb.String()
}

func canon(sb *strings.Builder, v any) {
	switch t := v.(type) {
	case []any:
		sb.WriteByte('[')
		for i, e := range t {
			if i > 0 {
				sb.WriteByte(' ')
			}
			canon(sb, e)
		}
		sb.WriteByte(']')
	case map[string]any:
		keys := make([]string, 0, len(t))
		for k := range t {
			keys = append(keys, k)
		}
		sort.Strings(keys)
		sb.WriteByte('{')
		for i, k := range keys {
			if i > 0 {
				sb.WriteByte(' ')
			}
			fmt.Fprintf(sb, "%q:", k)
			canon(sb, t[k])
		}
		sb.WriteByte('}')
	case string:
		fmt.Fprintf(sb, "%q", t)
	case jp.Expr:
		fmt.Fprintf(sb, "<expr %s>", t.String())
	case *asm.Fn:
		sb.WriteString("<fn ")
		canon(sb, t.Simplify())
		sb.WriteByte('>')
	default:
		fmt.Fprintf(sb, "%T(%v)", v, v)
	}
}

func rebuilt(raw []any, fresh func() map[string]any) (rs, rp run, text string) {
	rs = run{R: "skip", Root: enc(nil, 0)}
	rp = run{R: "skip", Root: enc(nil, 0)}
	p, fail := build(raw)
	if fail != nil || p == nil {
		return // nothing to print: NewPlan gave no plan (empty array) or panicked (reported by the runs)
	}
	func() {
		defer func() {
			if x := recover(); x != nil {
				rs = run{R: "panic", Root: enc(nil, 0), M: fmt.Sprintf("String %T: %v", x, x)}
			}
		}()
		text = p.String()
		v, err := senParse(text)
		if err != nil {
			rs = run{R: "unparsable", Root: enc(nil, 0), M: clip(err.Error())}
			return
		}
		p2, f2 := build(v)
		if f2 != nil {
			rs = *f2
			return
		}
		rs = execute(p2, fresh())
	}()
	func() {
		defer func() {
			if x := recover(); x != nil {
				rp = run{R: "panic", Root: enc(nil, 0), M: fmt.Sprintf("Simplify %T: %v", x, x)}
			}
		}()
		p3, _ := build(raw)
		v := p3.Simplify()
		p4, f4 := build(v)
		if f4 != nil {
			rp = *f4
			return
		}
		rp = execute(p4, fresh())
	}()
	return
}

// senParse parses the printed plan with a fresh sen.Parser; a panic of the parser (C06's business) makes the
// text unparsable as far as C20 is concerned.
func senParse(text string) (v any, err error) {
	defer func() {
		if x := recover(); x != nil {
			err = fmt.Errorf("sen parser panic: %v", x)
		}
	}()
	sp := sen.Parser{}
	return sp.Parse([]byte(text))
}

func execCases() {
	// the inspect function prints to os.Stdout: keep the trace stream apart from it
	traceOut := os.Stdout
	if dn, err := os.OpenFile(os.DevNull, os.O_WRONLY, 0); err == nil {
		os.Stdout = dn
	}
	var cases []caseIn
	sc := bufio.NewScanner(os.Stdin)
	sc.Buffer(make([]byte, 1<<20), 1<<28)
	for sc.Scan() {
		if len(sc.Bytes()) == 0 {
			continue
		}
		var c caseIn
		if err := json.Unmarshal(sc.Bytes(), &c); err != nil {
			fmt.Fprintln(os.Stderr, "bad case:", err)
			os.Exit(2)
		}
		cases = append(cases, c)
	}
	res := make([][]byte, len(cases))
	nw := runtime.NumCPU()
	if nw > 8 {
		nw = 8
	}
	var mu sync.Mutex
	cur := -1
	inflight := make([]int64, nw)
	inflightCase := make([]int, nw)
	var wg sync.WaitGroup
	for w := 0; w < nw; w++ {
		wg.Add(1)
		go func(w int) {
			defer wg.Done()
			for {
				mu.Lock()
				cur++
				i := cur
				if i >= len(cases) {
					inflight[w] = 0
					mu.Unlock()
					return
				}
				inflight[w] = time.Now().UnixNano()
				inflightCase[w] = i
				mu.Unlock()
				b, err := json.Marshal(one(cases[i]))
				if err != nil {
					fmt.Fprintln(os.Stderr, "marshal:", err)
					os.Exit(2)
				}
				res[i] = append(b, '\n')
			}
		}(w)
	}
	done := make(chan struct{})
	go func() { wg.Wait(); close(done) }()
	limit := 20 * time.Second
	if s := os.Getenv("VERIF_HANG_S"); s != "" {
		if n, err := strconv.Atoi(s); err == nil {
			limit = time.Duration(n) * time.Second
		}
	}
	tick := time.NewTicker(time.Second)
loop:
	for {
		select {
		case <-done:
			break loop
		case <-tick.C:
			mu.Lock()
			for w := range inflight {
				if inflight[w] != 0 && time.Now().UnixNano()-inflight[w] > int64(limit) {
					b, _ := json.Marshal(cases[inflightCase[w]])
					fmt.Fprintf(os.Stderr, "HANG %s\n", b)
					os.Exit(3)
				}
			}
			mu.Unlock()
		}
	}
	out := bufio.NewWriterSize(traceOut, 1<<20)
	for _, l := range res {
		out.Write(l)
	}
	out.Flush()
}
