// Command asmx replays TLC-generated assembly plans into the real asm package (C20, C06).
//
//	asmx fns                          > fns.json      (function names and Desc strings from asm.FnDocs())
//	asmx exec  < cases.ndjson         > trace.ndjson  (each case {plan: tagged AST, root: tagged value, bare?: bool})
//
// Every plan is executed 5 times on fresh deep copies of the root (runs 1-3 on one Plan object,
// runs 4-5 on freshly built Plan objects), then rebuilt from Plan.String() (parsed with a fresh
// sen.Parser) and from Plan.Simplify() and executed once more each; the plan is also written as SEN TEXT
// (all strings quoted / bare tokens where SEN allows them) and run through the whole pipeline
// sen.Parse -> asm.NewPlan -> Plan.Execute. Only observations are recorded; the verdicts are taken by
// the TLC trace specification TraceAsm.
//
// Process structure: "exec" is a supervisor. The cases are executed by child processes ("asmx worker",
// one case per line in, one observation per line out). A child that does not answer a case within the
// watchdog limit writes the observation r = "hang" (with the phase it is stuck in: NewPlan, Execute,
// String, sen.Parse ...) and exits; the supervisor starts a new child for the remaining cases, so one
// spinning plan costs one case, not the batch. A child that dies (fatal error: stack overflow, ...) gives
// the observation r = "crash". A case with a history ("pre": plans executed before it in the same
// process) always gets a fresh child of its own, and its plan is also run alone in another fresh child
// ("alone"): the same plan after other plans must behave like the plan alone.
package main

import (
	"bufio"
	"bytes"
	"encoding/json"
	"fmt"
	"io"
	"math"
	"os"
	"os/exec"
	"reflect"
	"runtime"
	"sort"
	"strconv"
	"strings"
	"sync"
	"sync/atomic"
	"time"

	"github.com/ohler55/ojg/asm"
	"github.com/ohler55/ojg/jp"
	"github.com/ohler55/ojg/sen"
)

type caseIn struct {
	ID    int            `json:"id"`
	Src   string         `json:"src,omitempty"`
	Plan  map[string]any `json:"plan"`
	Root  map[string]any `json:"root"`
	Root2 map[string]any `json:"root2,omitempty"` // a second, different root for the same Plan object
	Bare  bool           `json:"bare,omitempty"`
	Pre   []preStep      `json:"pre,omitempty"` // history: plans executed before this one in the same (fresh) process
}

type preStep struct {
	Plan map[string]any `json:"plan"`
	Root map[string]any `json:"root,omitempty"` // absent: the root of the case itself
	Bare bool           `json:"bare,omitempty"`
}

type run struct {
	R    string `json:"r,omitempty"` // ok | err | panic | unparsable | skip
	Root any    `json:"root,omitempty"`
	M    string `json:"m,omitempty"`
	Eq   int    `json:"eq,omitempty"` // 1: outcome and root identical to run 1 (grouping of identical observations)
}

type caseOut struct {
	ID   int            `json:"id"`
	Src  string         `json:"src,omitempty"`
	Plan map[string]any `json:"plan"`
	Root map[string]any `json:"root"`
	Bare bool           `json:"bare"`
	Runs []run          `json:"runs"`
	Str  run            `json:"str"`
	Simp run            `json:"simp"`
	Text string         `json:"text"`
	// PlanUnchanged observations: String() of the executed Plan object before the first and after the last Execute,
	// the executed object run once more on root2, and a freshly built plan on root2
	Text0    string `json:"text0"`
	Text1    string `json:"text1"`
	AltSame  run    `json:"alt_same"`
	AltFresh run    `json:"alt_fresh"`
	// the plan written as SEN text and run through sen.Parse -> NewPlan -> Execute: [all strings quoted, bare tokens]
	Sen  string `json:"sen"`
	Txt  []run  `json:"txt"`
	Jpok bool   `json:"jpok"` // fact for the specification: some string literal starting with $ or @ IS accepted by jp.ParseString
	// history cases: number of plans executed before this one in the same process, and the plan run alone in a fresh process
	NPre  int `json:"npre"`
	Alone run `json:"alone"`
}

func main() {
	if len(os.Args) < 2 {
		fmt.Fprintln(os.Stderr, "usage: asmx fns|exec")
		os.Exit(2)
	}
	switch os.Args[1] {
	case "fns":
		docs := asm.FnDocs()
		names := make([]string, 0, len(docs))
		for k := range docs {
			names = append(names, k)
		}
		sort.Strings(names)
		out := map[string]any{"names": names, "docs": docs}
		b, _ := json.Marshal(out)
		os.Stdout.Write(append(b, '\n'))
	case "exec":
		execCases()
	case "worker":
		worker()
	default:
		fmt.Fprintln(os.Stderr, "unknown mode", os.Args[1])
		os.Exit(2)
	}
}

// ---------------------------------------------------------------- tagged AST -> Go values
func num(x any) int64 {
	switch t := x.(type) {
	case float64:
		return int64(t)
	case json.Number:
		i, _ := t.Int64()
		return i
	}
	return 0
}

func bytesOf(x any) string {
	l, _ := x.([]any)
	b := make([]byte, len(l))
	for i, e := range l {
		b[i] = byte(num(e))
	}
	return string(b)
}

// PathText prints a tagged path the way a plan author writes it.
func pathText(n map[string]any) string {
	var sb strings.Builder
	if at, _ := n["at"].(bool); at {
		sb.WriteByte('@')
	} else {
		sb.WriteByte('$')
	}
	frs, _ := n["fr"].([]any)
	for _, f := range frs {
		fm := f.(map[string]any)
		switch fm["k"] {
		case "c":
			sb.WriteByte('.')
			sb.WriteString(fm["s"].(string))
		case "n":
			fmt.Fprintf(&sb, "[%d]", num(fm["i"]))
		case "w":
			sb.WriteString("[*]")
		case "d":
			sb.WriteString("..")
		}
	}
	s := sb.String()
	// "$..[*]" style is fine for jp; a descent directly followed by a child needs no extra dot
	return strings.ReplaceAll(s, "...", "..")
}

// toGo converts a tagged node into the raw value a plan author would write (what sen/oj parsing yields).
func toGo(n any) any {
	m, ok := n.(map[string]any)
	if !ok {
		panic(fmt.Sprintf("bad node %v", n))
	}
	switch m["t"] {
	case "null":
		return nil
	case "bool":
		return m["v"].(bool)
	case "int":
		return num(m["v"])
	case "bigint": // sign + decimal digits: an integer beyond TLC's range
		var sb strings.Builder
		if neg, _ := m["neg"].(bool); neg {
			sb.WriteByte('-')
		}
		ds, _ := m["d"].([]any)
		for _, d := range ds {
			sb.WriteByte(byte('0' + num(d)))
		}
		i, err := strconv.ParseInt(sb.String(), 10, 64)
		if err != nil {
			panic("bad bigint " + sb.String())
		}
		return i
	case "flt":
		q := m["q"].([]any)
		if nz, _ := m["nz"].(bool); nz {
			return math.Copysign(0, -1) // the literal -0.0
		}
		return float64(num(q[0])) / float64(int64(1)<<uint(num(q[1])))
	case "str":
		return bytesOf(m["v"])
	case "arr":
		l, _ := m["v"].([]any)
		r := make([]any, len(l))
		for i, e := range l {
			r[i] = toGo(e)
		}
		return r
	case "obj":
		r := map[string]any{}
		if mm, ok := m["m"].(map[string]any); ok {
			for k, e := range mm {
				r[k] = toGo(e)
			}
		}
		return r
	case "path":
		return pathText(m)
	case "call":
		l, _ := m["a"].([]any)
		r := make([]any, 0, len(l)+1)
		r = append(r, m["fn"].(string))
		for _, e := range l {
			r = append(r, toGo(e))
		}
		return r
	case "pair": // cond clause
		return []any{toGo(m["c"]), toGo(m["v"])}
	}
	panic(fmt.Sprintf("bad tag %v", m["t"]))
}

func deep(v any) any {
	switch t := v.(type) {
	case []any:
		r := make([]any, len(t))
		for i, e := range t {
			r[i] = deep(e)
		}
		return r
	case map[string]any:
		r := make(map[string]any, len(t))
		for k, e := range t {
			r[k] = deep(e)
		}
		return r
	}
	return v
}

// ---------------------------------------------------------------- Go values -> tagged observation
func enc(v any, depth int) any { return encp(v, depth, nil) }

// onPath reports whether the container v is already being encoded further up (a cyclic structure, e.g. after
// [setall "$.src.b[*]" $.src.b]); such a value is outside the value universe and is projected to "other".
func onPath(v any, path []uintptr) (uintptr, bool) {
	var p uintptr
	switch t := v.(type) {
	case []any:
		if len(t) == 0 {
			return 0, false
		}
		p = reflect.ValueOf(t).Pointer()
	case map[string]any:
		p = reflect.ValueOf(t).Pointer()
	}
	for _, x := range path {
		if x == p {
			return p, true
		}
	}
	return p, false
}

func encp(v any, depth int, path []uintptr) any {
	if depth > 24 {
		return map[string]any{"t": "other", "s": "too deep"}
	}
	if p, cyc := onPath(v, path); cyc {
		return map[string]any{"t": "other", "s": "cycle"}
	} else if p != 0 {
		path = append(path, p)
	}
	switch t := v.(type) {
	case nil:
		return map[string]any{"t": "null"}
	case bool:
		return map[string]any{"t": "bool", "v": t}
	case int64:
		return encInt(t)
	case int:
		return encInt(int64(t))
	case float64:
		if !math.IsInf(t, 0) && !math.IsNaN(t) {
			for k := 0; k <= 12; k++ {
				x := t * float64(int64(1)<<uint(k))
				if x == math.Trunc(x) && math.Abs(x) <= 1<<30 {
					return map[string]any{"t": "flt", "q": []int64{int64(x), int64(k)}}
				}
			}
		}
		return map[string]any{"t": "flt", "q": []int64{}, "s": strconv.FormatFloat(t, 'g', -1, 64)}
	case string:
		b := []byte(t)
		r := make([]int, len(b))
		for i, x := range b {
			r[i] = int(x)
		}
		return map[string]any{"t": "str", "v": r}
	case []any:
		r := make([]any, len(t))
		for i, e := range t {
			r[i] = encp(e, depth+1, path)
		}
		return map[string]any{"t": "arr", "v": r}
	case map[string]any:
		r := make(map[string]any, len(t))
		for k, e := range t {
			r[k] = encp(e, depth+1, path)
		}
		return map[string]any{"t": "obj", "m": r}
	}
	return map[string]any{"t": "other", "s": fmt.Sprintf("%T:%v", v, v)}
}

func encInt(i int64) any {
	if -(1<<30) <= i && i <= 1<<30 {
		return map[string]any{"t": "int", "v": i}
	}
	s := strconv.FormatInt(i, 10)
	neg := false
	if s[0] == '-' {
		neg, s = true, s[1:]
	}
	d := make([]int, len(s))
	for k := range s {
		d[k] = int(s[k] - '0')
	}
	return map[string]any{"t": "bigint", "neg": neg, "d": d}
}

// ---------------------------------------------------------------- execution
// phase names the library call in progress (read by the child's watchdog when a case does not come back)
var phase atomic.Value

func setPhase(s string) { phase.Store(s) }

func execute(p *asm.Plan, root map[string]any) (r run) {
	setPhase("Execute")
	defer func() {
		if x := recover(); x != nil {
			r = run{R: "panic", Root: enc(nil, 0), M: fmt.Sprintf("%T: %v", x, x)}
		}
	}()
	err := p.Execute(root)
	if err != nil {
		return run{R: "err", Root: enc(root, 0), M: clip(err.Error())}
	}
	return run{R: "ok", Root: enc(root, 0)}
}

// justRun executes a plan of the history: only its having run matters, nothing is recorded
func justRun(p *asm.Plan, root map[string]any) {
	setPhase("Execute(history)")
	defer func() { _ = recover() }()
	_ = p.Execute(root)
}

func clip(s string) string {
	if len(s) > 160 {
		return s[:160]
	}
	return s
}

func build(raw any) (p *asm.Plan, fail *run) {
	setPhase("NewPlan")
	defer func() {
		if x := recover(); x != nil {
			fail = &run{R: "panic", Root: enc(nil, 0), M: fmt.Sprintf("NewPlan %T: %v", x, x)}
		}
	}()
	l, ok := raw.([]any)
	if !ok {
		return nil, &run{R: "unparsable", Root: enc(nil, 0), M: fmt.Sprintf("not an array: %T", raw)}
	}
	return asm.NewPlan(deep(l).([]any)), nil
}

func one(c caseIn) caseOut {
	out := caseOut{ID: c.ID, Src: c.Src, Plan: c.Plan, Root: c.Root, Bare: c.Bare, NPre: len(c.Pre), Alone: run{R: "skip"}}
	// the history: plans executed before this one in the same process (fresh Plan objects, fresh roots; outcomes not recorded)
	var sameRoot any
	for _, h := range c.Pre {
		hr := toGo(h.Plan).([]any)
		if h.Bare && len(hr) > 0 {
			hr = hr[1:]
		}
		if hp, hf := build(hr); hf == nil && hp != nil {
			if h.Root == nil {
				if sameRoot == nil {
					sameRoot = toGo(c.Root)
				}
				justRun(hp, deep(sameRoot).(map[string]any))
			} else {
				justRun(hp, deep(toGo(h.Root)).(map[string]any))
			}
		}
	}
	raw := toGo(c.Plan).([]any)
	if c.Bare && len(raw) > 0 {
		raw = raw[1:]
	}
	root := toGo(c.Root).(map[string]any)
	fresh := func() map[string]any { return deep(root).(map[string]any) }
	// runs 1-3: one Plan object; runs 4-5: fresh Plan objects
	p, fail := build(raw)
	out.AltSame, out.AltFresh = run{R: "skip"}, run{R: "skip"}
	if fail == nil && p != nil {
		out.Text0 = planText(p)
	}
	for i := 0; i < 3; i++ {
		if fail != nil {
			out.Runs = append(out.Runs, *fail)
		} else {
			out.Runs = append(out.Runs, execute(p, fresh()))
		}
	}
	if c.Root2 != nil && fail == nil && p != nil {
		root2 := toGo(c.Root2).(map[string]any)
		out.AltSame = execute(p, deep(root2).(map[string]any))
		out.Text1 = planText(p)
		if pf, ff := build(raw); ff == nil && pf != nil {
			out.AltFresh = execute(pf, deep(root2).(map[string]any))
		} else if ff != nil {
			out.AltFresh = *ff
		}
	} else {
		out.Text1 = out.Text0
		if fail == nil && p != nil {
			out.Text1 = planText(p)
		}
	}
	for i := 0; i < 2; i++ {
		p2, fail2 := build(raw)
		if fail2 != nil {
			out.Runs = append(out.Runs, *fail2)
		} else {
			out.Runs = append(out.Runs, execute(p2, fresh()))
		}
	}
	// rebuilt from the printed form and from the simplified form (taken from a fresh, never executed plan)
	out.Str, out.Simp, out.Text = rebuilt(raw, fresh)
	// the plan as SEN text through the whole pipeline sen.Parse -> NewPlan -> Execute
	out.Jpok = pathLikeAccepted(c.Plan)
	out.Sen = senText(c.Plan, c.Bare, false)
	out.Txt = []run{textRun(out.Sen, fresh), textRun(senText(c.Plan, c.Bare, true), fresh)}
	// group identical observations: a run that equals run 1 is recorded as {eq:1}
	first, _ := json.Marshal(out.Runs[0])
	same := func(r run) bool {
		b, _ := json.Marshal(run{R: r.R, Root: r.Root, M: out.Runs[0].M})
		return string(b) == string(first)
	}
	for i := 1; i < len(out.Runs); i++ {
		if same(out.Runs[i]) {
			out.Runs[i] = run{Eq: 1}
		}
	}
	if same(out.Str) {
		out.Str = run{Eq: 1}
	}
	if same(out.Simp) {
		out.Simp = run{Eq: 1}
	}
	for i := range out.Txt {
		if same(out.Txt[i]) {
			out.Txt[i] = run{Eq: 1}
		}
	}
	// the two runs on the second root: only their agreement matters; identical observations are grouped
	if out.AltSame.R != "skip" {
		a, _ := json.Marshal(run{R: out.AltSame.R, Root: out.AltSame.Root})
		b, _ := json.Marshal(run{R: out.AltFresh.R, Root: out.AltFresh.Root})
		if string(a) == string(b) {
			out.AltSame = run{R: out.AltSame.R, M: out.AltSame.M}
			out.AltFresh = run{Eq: 1}
		}
	}
	return out
}

// planText is the print form of a plan, Plan.Simplify() (what Plan.String() writes), rendered canonically: object
// members sorted (String() writes them in Go map order, which is not a change of the plan). A jp.Expr or *asm.Fn that
// sits inside an uncompiled list is marked: String() would write it as a list of fragments / a struct.
func planText(p *asm.Plan) (s string) {
	setPhase("Simplify")
	defer func() {
		if x := recover(); x != nil {
			s = fmt.Sprintf("<Simplify panics: %v>", x)
		}
	}()
	var sb strings.Builder
	canon(&sb, p.Simplify())
	return sb.String()
}

func canon(sb *strings.Builder, v any) {
	switch t := v.(type) {
	case []any:
		sb.WriteByte('[')
		for i, e := range t {
			if i > 0 {
				sb.WriteByte(' ')
			}
			canon(sb, e)
		}
		sb.WriteByte(']')
	case map[string]any:
		keys := make([]string, 0, len(t))
		for k := range t {
			keys = append(keys, k)
		}
		sort.Strings(keys)
		sb.WriteByte('{')
		for i, k := range keys {
			if i > 0 {
				sb.WriteByte(' ')
			}
			fmt.Fprintf(sb, "%q:", k)
			canon(sb, t[k])
		}
		sb.WriteByte('}')
	case string:
		fmt.Fprintf(sb, "%q", t)
	case jp.Expr:
		fmt.Fprintf(sb, "<expr %s>", t.String())
	case *asm.Fn:
		sb.WriteString("<fn ")
		canon(sb, t.Simplify())
		sb.WriteByte('>')
	default:
		fmt.Fprintf(sb, "%T(%v)", v, v)
	}
}

func rebuilt(raw []any, fresh func() map[string]any) (rs, rp run, text string) {
	rs = run{R: "skip", Root: enc(nil, 0)}
	rp = run{R: "skip", Root: enc(nil, 0)}
	p, fail := build(raw)
	if fail != nil || p == nil {
		return // nothing to print: NewPlan gave no plan (empty array) or panicked (reported by the runs)
	}
	func() {
		defer func() {
			if x := recover(); x != nil {
				rs = run{R: "panic", Root: enc(nil, 0), M: fmt.Sprintf("String %T: %v", x, x)}
			}
		}()
		setPhase("String")
		text = p.String()
		setPhase("sen.Parse")
		v, err := senParse(text)
		if err != nil {
			rs = run{R: "unparsable", Root: enc(nil, 0), M: clip(err.Error())}
			return
		}
		p2, f2 := build(v)
		if f2 != nil {
			rs = *f2
			return
		}
		rs = execute(p2, fresh())
	}()
	func() {
		defer func() {
			if x := recover(); x != nil {
				rp = run{R: "panic", Root: enc(nil, 0), M: fmt.Sprintf("Simplify %T: %v", x, x)}
			}
		}()
		p3, _ := build(raw)
		setPhase("Simplify")
		v := p3.Simplify()
		p4, f4 := build(v)
		if f4 != nil {
			rp = *f4
			return
		}
		rp = execute(p4, fresh())
	}()
	return
}

// senParse parses the printed plan with a fresh sen.Parser; a panic of the parser (C06's business) makes the
// text unparsable as far as C20 is concerned.
func senParse(text string) (v any, err error) {
	defer func() {
		if x := recover(); x != nil {
			err = fmt.Errorf("sen parser panic: %v", x)
		}
	}()
	sp := sen.Parser{}
	return sp.Parse([]byte(text))
}

// ---------------------------------------------------------------- SEN text of a plan
func safeToken(s string, fn bool) bool {
	if s == "" || s == "null" || s == "true" || s == "false" {
		return false
	}
	for i := 0; i < len(s); i++ {
		c := s[i]
		switch {
		case 'a' <= c && c <= 'z', 'A' <= c && c <= 'Z', c == '_':
		case c == '$' || c == '@':
			if fn {
				return false
			}
		case ('0' <= c && c <= '9') || c == '.':
			if i == 0 || fn {
				return false
			}
		case c == '?':
			if !fn || i == 0 {
				return false
			}
		default:
			return false
		}
	}
	return true
}

func senStr(sb *strings.Builder, s string, bare, fn bool) {
	if bare && safeToken(s, fn) {
		sb.WriteString(s)
		return
	}
	b, _ := json.Marshal(s)
	sb.Write(b)
}

func senNode(sb *strings.Builder, n any, bare bool, drop bool) {
	m, _ := n.(map[string]any)
	switch m["t"] {
	case "null":
		sb.WriteString("null")
	case "bool":
		if m["v"].(bool) {
			sb.WriteString("true")
		} else {
			sb.WriteString("false")
		}
	case "int", "bigint":
		fmt.Fprintf(sb, "%d", toGo(m).(int64))
	case "flt":
		f := toGo(m).(float64)
		t := strconv.FormatFloat(f, 'f', -1, 64)
		if !strings.ContainsAny(t, ".eE") {
			t += ".0"
		}
		sb.WriteString(t)
	case "str":
		senStr(sb, bytesOf(m["v"]), bare, false)
	case "path":
		senStr(sb, pathText(m), bare, false)
	case "arr":
		l, _ := m["v"].([]any)
		sb.WriteByte('[')
		for i, e := range l {
			if i > 0 {
				sb.WriteByte(' ')
			}
			senNode(sb, e, bare, false)
		}
		sb.WriteByte(']')
	case "obj":
		mm, _ := m["m"].(map[string]any)
		keys := make([]string, 0, len(mm))
		for k := range mm {
			keys = append(keys, k)
		}
		sort.Strings(keys)
		sb.WriteByte('{')
		for i, k := range keys {
			if i > 0 {
				sb.WriteByte(' ')
			}
			senStr(sb, k, bare, true)
			sb.WriteString(": ")
			senNode(sb, mm[k], bare, false)
		}
		sb.WriteByte('}')
	case "call":
		l, _ := m["a"].([]any)
		sb.WriteByte('[')
		if !drop {
			senStr(sb, m["fn"].(string), bare, true)
		}
		for i, e := range l {
			if i > 0 || !drop {
				sb.WriteByte(' ')
			}
			senNode(sb, e, bare, false)
		}
		sb.WriteByte(']')
	case "pair":
		sb.WriteByte('[')
		senNode(sb, m["c"], bare, false)
		sb.WriteByte(' ')
		senNode(sb, m["v"], bare, false)
		sb.WriteByte(']')
	default:
		panic(fmt.Sprintf("bad tag %v", m["t"]))
	}
}

// senText writes the plan the way an author types it: paths and function names as tokens / strings, string
// literals quoted (bare = false) or as bare SEN tokens where the characters allow it (bare = true).
func senText(plan map[string]any, dropName, bare bool) string {
	var sb strings.Builder
	senNode(&sb, plan, bare, dropName)
	return sb.String()
}

func textRun(text string, fresh func() map[string]any) run {
	setPhase("sen.Parse(text)")
	v, err := senParse(text)
	if err != nil {
		return run{R: "unparsable", Root: enc(nil, 0), M: clip(err.Error())}
	}
	p, f := build(v)
	if f != nil {
		return *f
	}
	if p == nil {
		return run{R: "skip", Root: enc(nil, 0)}
	}
	return execute(p, fresh())
}

// pathLikeAccepted: does the plan hold a string literal that starts with $ or @ and that jp.ParseString accepts?  (A fact
// the specification cannot compute: such a literal denotes a path, every other string is a plain string.)
func pathLikeAccepted(n any) bool {
	switch t := n.(type) {
	case map[string]any:
		if t["t"] == "str" {
			s := bytesOf(t["v"])
			if len(s) > 0 && (s[0] == '$' || s[0] == '@') {
				if _, err := jp.ParseString(s); err == nil {
					return true
				}
			}
			return false
		}
		for _, v := range t {
			if pathLikeAccepted(v) {
				return true
			}
		}
	case []any:
		for _, v := range t {
			if pathLikeAccepted(v) {
				return true
			}
		}
	}
	return false
}

// ---------------------------------------------------------------- child: one case per line
func failOut(c caseIn, r, m string) caseOut {
	f := run{R: r, Root: enc(nil, 0), M: m}
	return caseOut{ID: c.ID, Src: c.Src, Plan: c.Plan, Root: c.Root, Bare: c.Bare, Runs: []run{f, f, f, f, f},
		Str: run{R: "skip", Root: enc(nil, 0)}, Simp: run{R: "skip", Root: enc(nil, 0)}, AltSame: run{R: "skip"}, AltFresh: run{R: "skip"},
		Txt: []run{{R: "skip", Root: enc(nil, 0)}, {R: "skip", Root: enc(nil, 0)}}, NPre: len(c.Pre), Alone: run{R: "skip"}}
}

func hangLimit() time.Duration {
	limit := 20 * time.Second
	if s := os.Getenv("VERIF_HANG_S"); s != "" {
		if n, err := strconv.Atoi(s); err == nil {
			limit = time.Duration(n) * time.Second
		}
	}
	return limit
}

func worker() {
	// the inspect function prints to os.Stdout: keep the observation stream apart from it
	traceOut := os.Stdout
	if dn, err := os.OpenFile(os.DevNull, os.O_WRONLY, 0); err == nil {
		os.Stdout = dn
	}
	limit := hangLimit()
	if len(os.Args) > 2 {
		if n, err := strconv.Atoi(os.Args[2]); err == nil && n > 0 {
			limit = time.Duration(n) * time.Second
		}
	}
	var mu sync.Mutex // guards the output stream and the in-flight record
	var cur *caseIn
	var since time.Time
	setPhase("")
	go func() { // watchdog: the case in flight is given up after the limit
		for {
			time.Sleep(100 * time.Millisecond)
			mu.Lock()
			if cur != nil && time.Since(since) > limit {
				ph, _ := phase.Load().(string)
				if ph == "" {
					ph = "?"
				}
				b, _ := json.Marshal(failOut(*cur, "hang", ph))
				traceOut.Write(append(append([]byte("HANG "), b...), '\n'))
				os.Exit(3)
			}
			mu.Unlock()
		}
	}()
	sc := bufio.NewScanner(os.Stdin)
	sc.Buffer(make([]byte, 1<<20), 1<<28)
	for sc.Scan() {
		if len(sc.Bytes()) == 0 {
			continue
		}
		var c caseIn
		if err := json.Unmarshal(sc.Bytes(), &c); err != nil {
			fmt.Fprintln(os.Stderr, "bad case:", err)
			os.Exit(2)
		}
		mu.Lock()
		cur, since = &c, time.Now()
		mu.Unlock()
		o := one(c)
		b, err := json.Marshal(o)
		if err != nil {
			fmt.Fprintln(os.Stderr, "marshal:", err)
			os.Exit(2)
		}
		mu.Lock()
		cur = nil
		traceOut.Write(append(append([]byte("OK "), b...), '\n'))
		mu.Unlock()
	}
}

// ---------------------------------------------------------------- supervisor
type child struct {
	cmd   *exec.Cmd
	in    io.WriteCloser
	lines chan []byte
	errb  *strings.Builder
}

func startChild(limitS int) (*child, error) {
	cmd := exec.Command(os.Args[0], "worker", strconv.Itoa(limitS))
	in, err := cmd.StdinPipe()
	if err != nil {
		return nil, err
	}
	outp, err := cmd.StdoutPipe()
	if err != nil {
		return nil, err
	}
	eb := &strings.Builder{}
	cmd.Stderr = eb
	if err = cmd.Start(); err != nil {
		return nil, err
	}
	ch := &child{cmd: cmd, in: in, lines: make(chan []byte, 1), errb: eb}
	go func() {
		rd := bufio.NewReaderSize(outp, 1<<20)
		for {
			l, err := rd.ReadBytes('\n')
			if len(l) > 0 && l[len(l)-1] == '\n' {
				ch.lines <- l
			}
			if err != nil {
				close(ch.lines)
				return
			}
		}
	}()
	return ch, nil
}

func (ch *child) stop() {
	ch.in.Close()
	done := make(chan struct{})
	go func() { ch.cmd.Wait(); close(done) }()
	select {
	case <-done:
	case <-time.After(5 * time.Second):
		ch.cmd.Process.Kill()
		<-done
	}
}

func (ch *child) kill() {
	ch.cmd.Process.Kill()
	ch.cmd.Wait()
}

// do sends one case and waits for its observation; alive = the child can take another case
// do sends one case (its wire form, one JSON line) and waits for the observation; alive = the child can take another case
func (ch *child) do(wire []byte, limit time.Duration) (res []byte, alive bool) {
	fail := func(r, m string) []byte {
		var c caseIn
		if err := json.Unmarshal(wire, &c); err != nil {
			fmt.Fprintln(os.Stderr, "supervisor: bad case:", err)
			os.Exit(2)
		}
		o, _ := json.Marshal(failOut(c, r, m))
		return append(o, '\n')
	}
	if _, err := ch.in.Write(wire); err != nil {
		ch.kill()
		return fail("crash", "child gone: "+clip(ch.errb.String())), false
	}
	select {
	case l, ok := <-ch.lines:
		if !ok { // died without an answer: a fatal error of the Go runtime (stack overflow, concurrent map access ...)
			ch.cmd.Wait()
			msg := ch.errb.String()
			if len(msg) > 300 {
				msg = msg[:300]
			}
			return fail("crash", msg), false
		}
		if bytes.HasPrefix(l, []byte("HANG ")) {
			ch.cmd.Wait()
			return l[5:], false
		}
		return l[3:], true
	case <-time.After(limit + 15*time.Second): // the child's own watchdog did not fire: the whole process is stuck
		ch.kill()
		return fail("hang", "process"), false
	}
}

// the supervisor's view of a case: the fields it needs, the rest as raw JSON (cases are passed on, not re-encoded)
type lightCase struct {
	ID     int             `json:"id"`
	Src    string          `json:"src"`
	Bare   bool            `json:"bare"`
	Plan   json.RawMessage `json:"plan"`
	Root   json.RawMessage `json:"root"`
	Root2  json.RawMessage `json:"root2"`
	PreRef []int           `json:"pre_ref"`
	HasPre json.RawMessage `json:"pre"`
}

func execCases() {
	var lines [][]byte
	var cases []lightCase
	sc := bufio.NewScanner(os.Stdin)
	sc.Buffer(make([]byte, 1<<20), 1<<28)
	for sc.Scan() {
		if len(sc.Bytes()) == 0 {
			continue
		}
		l := append(append([]byte{}, sc.Bytes()...), '\n')
		var c lightCase
		if err := json.Unmarshal(l, &c); err != nil {
			fmt.Fprintln(os.Stderr, "bad case:", err)
			os.Exit(2)
		}
		lines = append(lines, l)
		cases = append(cases, c)
	}
	byID := map[int]int{}
	for i, c := range cases {
		byID[c.ID] = i
	}
	// wire form of a case with a history given by reference: the raw plans of the referenced cases are spliced in
	wire := func(i int, withPre bool) []byte {
		c := cases[i]
		var b bytes.Buffer
		fmt.Fprintf(&b, `{"id":%d,"src":%q,"bare":%v,"plan":%s,"root":%s`, c.ID, c.Src, c.Bare, c.Plan, c.Root)
		if len(c.Root2) > 0 {
			fmt.Fprintf(&b, `,"root2":%s`, c.Root2)
		}
		if withPre {
			b.WriteString(`,"pre":[`)
			for k, id := range c.PreRef {
				j, ok := byID[id]
				if !ok {
					fmt.Fprintln(os.Stderr, "bad pre_ref", id)
					os.Exit(2)
				}
				if k > 0 {
					b.WriteByte(',')
				}
				fmt.Fprintf(&b, `{"plan":%s,"bare":%v`, cases[j].Plan, cases[j].Bare)
				if !bytes.Equal(cases[j].Root, c.Root) { // (absent = the root of the case itself: sent and converted once)
					fmt.Fprintf(&b, `,"root":%s`, cases[j].Root)
				}
				b.WriteByte('}')
			}
			b.WriteByte(']')
		}
		b.WriteString("}\n")
		return b.Bytes()
	}
	res := make([][]byte, len(cases))
	nw := runtime.NumCPU()
	if nw > 8 {
		nw = 8
	}
	if nw > len(cases) {
		nw = len(cases)
	}
	base := hangLimit()
	explicit := os.Getenv("VERIF_HANG_S") != ""
	var mu sync.Mutex
	cur, hangs := -1, 0
	// after two cases have been given up the rest of the batch runs with a short limit (every hang verdict is confirmed
	// stand-alone with a long one anyway)
	limitNow := func() time.Duration {
		mu.Lock()
		defer mu.Unlock()
		if !explicit && hangs >= 2 && base > 3*time.Second {
			return 3 * time.Second
		}
		return base
	}
	fatal := func(err error) {
		fmt.Fprintln(os.Stderr, "supervisor:", err)
		os.Exit(2)
	}
	oneShot := func(w []byte) []byte {
		lim := limitNow()
		ch, err := startChild(int(lim / time.Second))
		if err != nil {
			fatal(err)
		}
		r, alive := ch.do(w, lim)
		if alive {
			ch.stop()
		}
		return r
	}
	// stripPre: the wire form of a case that came with its history by value (replay), without the history
	stripPre := func(l []byte) []byte {
		var m map[string]json.RawMessage
		if err := json.Unmarshal(l, &m); err != nil {
			fatal(err)
		}
		delete(m, "pre")
		b, _ := json.Marshal(m)
		return append(b, '\n')
	}
	var wg sync.WaitGroup
	for w := 0; w < nw; w++ {
		wg.Add(1)
		go func() {
			defer wg.Done()
			var ch *child
			for {
				mu.Lock()
				cur++
				i := cur
				mu.Unlock()
				if i >= len(cases) {
					break
				}
				c := cases[i]
				byRef := len(c.PreRef) > 0
				byVal := len(c.HasPre) > 2 && !bytes.Equal(bytes.TrimSpace(c.HasPre), []byte("null"))
				if byRef || byVal {
					// a history case: a fresh process for the history + plan, another fresh one for the plan alone
					var full, ar []byte
					if byRef {
						full, ar = oneShot(wire(i, true)), oneShot(wire(i, false))
					} else {
						full, ar = oneShot(lines[i]), oneShot(stripPre(lines[i]))
					}
					var fo, ao caseOut
					if json.Unmarshal(full, &fo) != nil || json.Unmarshal(ar, &ao) != nil || len(ao.Runs) == 0 {
						fatal(fmt.Errorf("bad observation for history case %d", c.ID))
					}
					fo.Alone = ao.Runs[0]
					b, _ := json.Marshal(fo)
					res[i] = append(b, '\n')
					if fo.Runs[0].R == "hang" {
						mu.Lock()
						hangs++
						mu.Unlock()
					}
					continue
				}
				lim := limitNow()
				if ch == nil {
					var err error
					if ch, err = startChild(int(lim / time.Second)); err != nil {
						fatal(err)
					}
				}
				r, alive := ch.do(lines[i], lim)
				res[i] = r
				if !alive {
					ch = nil
					mu.Lock()
					hangs++
					mu.Unlock()
				}
			}
			if ch != nil {
				ch.stop()
			}
		}()
	}
	wg.Wait()
	out := bufio.NewWriterSize(os.Stdout, 1<<20)
	for _, l := range res {
		out.Write(l)
	}
	out.Flush()
}
