// Command jpath generates JSONPath cases and runs the real jp evaluators / mutators on them.
//
//	jpath matrix [-full]            > cases.ndjson   fragment matrix of DESIGN 6/C05 (b): every fragment kind x
//	                                                  position x container kind x bound class
//	jpath random -n N [-nodesc-last] > cases.ndjson   seeded random trees and paths (VERIF_SEED)
//	jpath exec -set c05|c11          < cases.ndjson > trace.ndjson   (observations of the real code)
//	jpath mutmatrix / mutexec        see mut.go (C13)
//
// Every line of a trace is one case {path AST, data, observations}; TLC (spec/TraceJsonPath*.tla) judges it.
package main

import (
	"bufio"
	"encoding/json"
	"flag"
	"fmt"
	"math/rand"
	"os"
	"runtime"
	"strconv"
	"sync"
	"sync/atomic"
	"time"

	"github.com/ohler55/ojg/gen"
	"github.com/ohler55/ojg/jp"

	jl "verif/harness/jplib"
)

type Case struct {
	ID   int       `json:"id"`
	Src  string    `json:"src"`
	Fx   int       `json:"fx"`
	Path []jl.Frag `json:"path"`
	Data jl.Node   `json:"data"`
	PS   string    `json:"ps,omitempty"`
	O    []any     `json:"o,omitempty"`
	Note string    `json:"note,omitempty"`
}

func main() {
	if len(os.Args) < 2 {
		fmt.Fprintln(os.Stderr, "usage: jpath matrix|random|exec|mutmatrix|mutexec ...")
		os.Exit(2)
	}
	switch os.Args[1] {
	case "matrix":
		matrix(os.Args[2:])
	case "random":
		random(os.Args[2:])
	case "exec":
		execCases(os.Args[2:])
	case "shrink":
		shrinkCands(os.Args[2:])
	case "mutmatrix":
		mutMatrix(os.Args[2:])
	case "mutrandom":
		mutRandom(os.Args[2:])
	case "mutexec":
		mutExec(os.Args[2:])
	default:
		fmt.Fprintln(os.Stderr, "unknown mode", os.Args[1])
		os.Exit(2)
	}
}

func seed() int64 {
	s, err := strconv.ParseInt(os.Getenv("VERIF_SEED"), 10, 64)
	if err != nil || s == 0 {
		s = 1
	}
	return s
}

// ---------------------------------------------------------------- data builders (all node values distinct)
type ctr struct{ n int64 }

func (c *ctr) next() jl.Node { c.n++; return jl.Int(c.n) }

func elem(shape string, j int, c *ctr) jl.Node {
	switch shape {
	case "obj":
		return jl.Obj("a", jl.Int(int64(10+j)), "b", jl.Str("s"+strconv.Itoa(j)))
	case "arr":
		return jl.Arr(c.next(), c.next())
	case "scalar":
		return jl.Int(int64(50 + j))
	case "str":
		return jl.Str("t" + strconv.Itoa(j))
	case "alike": // member tags: values of different kinds that print alike, in both orders
		tags := [][]jl.Node{
			{jl.Int(1), jl.Str("1")}, {jl.Str("1"), jl.Int(1)}, {jl.Bool(true), jl.Str("true")}, {jl.Str("true"), jl.Bool(true)},
			{jl.Null(), jl.Str("<nil>")}, {jl.Str("<nil>"), jl.Null()}, {jl.Int(2), jl.Str("x"), jl.Str("2")}, {},
		}
		return jl.Obj("tags", jl.Arr(tags[j%len(tags)]...), "b", c.next())
	case "num": // member a: an int, a fractional float, a negative float, a string, null, absent (mixed int / float ordering)
		switch j % 7 {
		case 0:
			return jl.Obj("a", jl.Int(8), "b", c.next())
		case 1:
			return jl.Obj("a", jl.Flt(35, 2), "b", c.next()) // 8.75
		case 2:
			return jl.Obj("a", jl.Flt(-5, 1), "b", c.next()) // -2.5
		case 3:
			return jl.Obj("a", jl.Int(-2), "b", c.next())
		case 4:
			return jl.Obj("a", jl.Str("s"), "b", c.next())
		case 5:
			return jl.Obj("a", jl.Null(), "b", c.next())
		}
		return jl.Obj("b", c.next())
	case "numel": // the element itself
		switch j % 6 {
		case 0:
			return jl.Int(8)
		case 1:
			return jl.Flt(35, 2)
		case 2:
			return jl.Flt(-5, 1)
		case 3:
			return jl.Int(-2)
		case 4:
			return jl.Flt(1, 1) // 0.5
		}
		return jl.Str("s")
	case "rkobj": // an element that has its own rk member: resolving `$.rk...` against the element gives another truth than against the root
		return jl.Obj("a", jl.Int(int64(10+j)), "b", jl.Str("s"+strconv.Itoa(j)), "rk", jl.Arr(jl.Int(int64(100+j))))
	case "scal": // the element itself is null / an int / a string / an object / an array (scripts on `@` and on a member of it)
		switch j % 5 {
		case 0:
			return jl.Null()
		case 1:
			return jl.Int(3)
		case 2:
			return jl.Str("s")
		case 3:
			return jl.Obj("x", jl.Int(1), "w", c.next())
		}
		return jl.Arr(c.next())
	case "nul": // member a: null / absent / present, next to a distinct member b (null-sensitive scripts)
		switch j % 4 {
		case 0:
			return jl.Obj("a", jl.Null(), "b", c.next())
		case 1:
			return jl.Obj("b", c.next())
		case 2:
			return jl.Obj("a", c.next(), "b", c.next())
		}
		return jl.Arr(c.next())
	case "mm": // for scripts with two multi-valued operands: only a late / off-diagonal pair of a x b is equal
		switch j % 4 {
		case 0:
			return jl.Obj("a", jl.Arr(jl.Int(1), jl.Int(2)), "b", jl.Arr(jl.Int(3), jl.Int(2)), "c", c.next())
		case 1:
			return jl.Obj("a", jl.Arr(jl.Int(5), jl.Int(6)), "b", jl.Arr(jl.Int(7), jl.Int(8)), "c", c.next())
		case 2:
			return jl.Obj("a", jl.Arr(jl.Int(10), jl.Int(11), jl.Int(12)), "b", jl.Arr(jl.Int(13), jl.Int(14), jl.Int(12)), "c", c.next())
		}
		return jl.Obj("a", jl.Arr(jl.Int(20), jl.Int(21)), "b", jl.Arr(jl.Int(21), jl.Int(22), jl.Int(23)), "c", c.next())
	default: // mixed
		switch j % 5 {
		case 0:
			return jl.Obj("a", jl.Int(int64(10+j)), "b", jl.Str("s"+strconv.Itoa(j)))
		case 1:
			return jl.Int(int64(50 + j))
		case 2:
			return jl.Arr(c.next(), c.next())
		case 3:
			if j == 3 {
				return jl.Null()
			}
			return jl.Str("t" + strconv.Itoa(j))
		default:
			return jl.Obj("a", jl.Arr(c.next()), "c", c.next())
		}
	}
}

type cont struct {
	kind string // arr obj scalar null
	n    int
}

func mkCont(ct cont, shape string, c *ctr) jl.Node {
	switch ct.kind {
	case "arr":
		es := []jl.Node{}
		for j := 0; j < ct.n; j++ {
			es = append(es, elem(shape, j, c))
		}
		return jl.Arr(es...)
	case "obj":
		m := map[string]jl.Node{}
		for j := 0; j < ct.n; j++ {
			m[string(rune('a'+j))] = elem(shape, j, c)
		}
		return jl.ObjOf(m)
	case "scalar":
		return jl.Int(4242)
	}
	return jl.Null()
}

type follower struct {
	f     jl.Frag
	shape string
}

// ---------------------------------------------------------------- fragment matrix
func matrix(args []string) {
	fs := flag.NewFlagSet("matrix", flag.ExitOnError)
	full := fs.Bool("full", false, "thorough parameter sets")
	lite := fs.Bool("lite", false, "smallest parameter sets (quick tier of the checks that evaluate many things per case)")
	fs.Parse(args)
	out := bufio.NewWriterSize(os.Stdout, 1<<20)
	defer out.Flush()
	id := 0
	emit := func(fx int, path []jl.Frag, data jl.Node) {
		id++
		b, _ := json.Marshal(Case{ID: id, Src: "matrix", Fx: fx, Path: path, Data: data})
		out.Write(b)
		out.WriteByte('\n')
	}
	A := jl.Absent
	var bounds, steps, lens []int
	if *full {
		bounds = []int{-7, -6, -5, -4, -3, -2, -1, 0, 1, 2, 3, 4, 5, 6, 7, A}
		steps = []int{-3, -2, -1, 0, 1, 2, 3, A}
		lens = []int{0, 1, 2, 3, 4, 5}
	} else {
		bounds = []int{-7, -4, -2, -1, 0, 1, 2, 4, 7, A}
		steps = []int{-2, -1, 0, 1, 2, 3, A}
		lens = []int{0, 1, 3, 4}
	}
	if *lite {
		bounds = []int{-7, -2, -1, 0, 1, 2, 7, A}
		steps = []int{-2, -1, 0, 1, 2, A}
		lens = []int{0, 1, 3}
	}
	followers := []follower{{jl.FChild("a"), "obj"}, {jl.FNth(0), "arr"}, {jl.FNth(-1), "arr"}, {jl.FWild(), "mixed"}}
	if !*full {
		followers = []follower{{jl.FChild("a"), "obj"}, {jl.FNth(-1), "arr"}, {jl.FWild(), "mixed"}}
	}
	conts := []cont{}
	for _, n := range lens {
		conts = append(conts, cont{"arr", n})
	}
	// {"obj", 4} has a null member under key "d" (mixed shape): a present null member must not be taken for an absent one
	nonArr := []cont{{"obj", 0}, {"obj", 2}, {"obj", 3}, {"obj", 4}, {"scalar", 0}, {"null", 0}}
	// place one focus fragment in every position over one container
	place := func(focus jl.Frag, ct cont, lastShapes []string, variant int) {
		c := &ctr{n: 100}
		for _, sh := range lastShapes {
			d := mkCont(ct, sh, c)
			// only
			emit(2, []jl.Frag{jl.FRoot(), focus}, d)
			// last, behind a child or an index
			if variant%2 == 0 {
				emit(3, []jl.Frag{jl.FRoot(), jl.FChild("p"), focus}, jl.Obj("p", d, "q", jl.Int(9999)))
			} else {
				emit(3, []jl.Frag{jl.FRoot(), jl.FNth(1), focus}, jl.Arr(jl.Int(77), d))
			}
		}
		for fi, fo := range followers {
			d := mkCont(ct, fo.shape, c)
			emit(2, []jl.Frag{jl.FRoot(), focus, fo.f}, d)
			if (fi+variant)%2 == 0 {
				emit(3, []jl.Frag{jl.FRoot(), jl.FChild("p"), focus, fo.f}, jl.Obj("p", d, "q", jl.Int(9999)))
			} else {
				emit(3, []jl.Frag{jl.FRoot(), jl.FNth(-2), focus, fo.f}, jl.Arr(d, jl.Int(77)))
			}
		}
	}
	v := 0
	// slices
	for _, s := range bounds {
		for _, e := range bounds {
			for _, st := range steps {
				f := jl.FSlice(s, e, st)
				for _, ct := range conts {
					v++
					place(f, ct, []string{"scalar"}, v)
				}
				if (s == A || s == 1 || s == -1) && (e == A || e == 2 || e == -1) {
					for _, ct := range nonArr {
						v++
						place(f, ct, []string{"scalar"}, v)
					}
				}
			}
		}
	}
	all := append(append([]cont{}, conts...), nonArr...)
	// nth
	for i := -7; i <= 7; i++ {
		for _, ct := range all {
			v++
			place(jl.FNth(i), ct, []string{"mixed"}, v)
		}
	}
	// child
	for _, k := range []string{"a", "b", "c", "d", "zz"} {
		for _, ct := range all {
			v++
			place(jl.FChild(k), ct, []string{"mixed"}, v)
		}
	}
	// wildcard, descent
	for _, ct := range all {
		v++
		place(jl.FWild(), ct, []string{"mixed", "scalar"}, v)
		v++
		place(jl.FDesc(), ct, []string{"mixed"}, v)
	}
	// unions: ints, keys, mixed, repeated, out of range
	unions := [][]any{{0}, {-1}, {0, 1}, {1, 0}, {2, 0, 1}, {-1, 0}, {0, -1}, {0, 0}, {1, 1, 0}, {5, 0}, {-7, 1}, {7, -7}, {0, 2, 4},
		{"a"}, {"a", "b"}, {"b", "a"}, {"c", "a", "b"}, {"a", "a"}, {"zz", "a"}, {"a", 0}, {0, "a"}, {"b", 1, "a", 0}, {-2, "c", 1}, {"d"}, {"d", "a"},
		// out-of-range / absent members at every position of the list, next to members that exist
		{-9, 0}, {0, 5}, {0, 9, 1}, {9, 0, 1}, {0, 1, 9}, {1, -9, 0}, {"a", "zz"}, {"a", "zz", "b"}, {"zz", "b", "a"},
		// mixed unions in which only the members of ONE kind exist (a collection that is Keyed and Indexed at once must try both kinds)
		{"zz", 1}, {-1, "zz"}, {"zz", 0, "yy"}, {9, "a"}, {"a", -9}}
	for _, u := range unions {
		for _, ct := range all {
			v++
			place(jl.FUnion(u...), ct, []string{"mixed"}, v)
		}
	}
	// filters from the small menu (truth defined in JsonPath.tla)
	filters := []jl.Frag{
		jl.FFilter("eqk", "a", jl.Int(11)), jl.FFilter("eqk", "a", jl.Int(99)), jl.FFilter("eqk", "b", jl.Str("s2")),
		jl.FFilter("eqk", "a", jl.Str("s1")), jl.FFilter("gtk", "a", jl.Int(10)), jl.FFilter("gtk", "a", jl.Int(11)),
		jl.FFilter("gtk", "a", jl.Int(-5)), jl.FFilter("gtk", "b", jl.Int(1)), jl.FFilter("exk", "a", jl.Null()),
		jl.FFilter("exk", "c", jl.Null()), jl.FFilter("exk", "zz", jl.Null()), jl.FFilter("eqs", "", jl.Int(51)),
		jl.FFilter("eqs", "", jl.Str("t4")), jl.FFilter("gts", "", jl.Int(51)), jl.FFilter("gts", "", jl.Int(0)),
	}
	for _, f := range filters {
		for _, ct := range all {
			v++
			place(f, ct, []string{"mixed", "obj", "scalar"}, v)
		}
	}
	// a fragment behind one that selects several nodes (siblings in flight on the evaluation stack)
	multis := []jl.Frag{jl.FWild(), jl.FUnion(0, 1), jl.FUnion("a", "b"), jl.FSlice(0, 2, A), jl.FSlice(-1, A, -1), jl.FFilter("exk", "a", jl.Null())}
	seconds := []jl.Frag{jl.FDesc(), jl.FWild(), jl.FSlice(0, 2, A), jl.FSlice(1, A, 2), jl.FUnion(1, 0), jl.FNth(-1), jl.FChild("a"), jl.FFilter("gts", "", jl.Int(0))}
	for _, m := range multis {
		for _, s2 := range seconds {
			for _, outer := range []cont{{"arr", 3}, {"obj", 2}} {
				for _, sh := range []string{"arr", "obj", "mixed"} {
					c := &ctr{n: 100}
					var d jl.Node
					if outer.kind == "arr" {
						d = jl.Arr(mkCont(cont{"arr", 3}, sh, c), mkCont(cont{"obj", 2}, sh, c), mkCont(cont{"arr", 2}, sh, c))
					} else {
						d = jl.Obj("a", mkCont(cont{"arr", 3}, sh, c), "b", mkCont(cont{"obj", 2}, sh, c))
					}
					emit(3, []jl.Frag{jl.FRoot(), m, s2}, d)
					emit(3, []jl.Frag{jl.FRoot(), m, s2, jl.FWild()}, d)
					emit(3, []jl.Frag{jl.FRoot(), m, s2, jl.FNth(0)}, d)
				}
			}
		}
	}
	// null-sensitive scripts: a present null member is not an absent one (== null, != null, == Nothing, != Nothing)
	for _, op := range []string{"eqnull", "nenull", "eqnothing", "nenothing"} {
		for _, key := range []string{"a", "zz"} {
			f := jl.FFilter(op, key, jl.Null())
			for _, ct := range []cont{{"arr", 0}, {"arr", 1}, {"arr", 3}, {"arr", 4}, {"obj", 3}, {"obj", 4}} {
				c := &ctr{n: 100}
				d := mkCont(ct, "nul", c)
				emit(2, []jl.Frag{jl.FRoot(), f}, d)
				emit(3, []jl.Frag{jl.FRoot(), jl.FChild("p"), f}, jl.Obj("p", d, "q", jl.Int(9999)))
				emit(2, []jl.Frag{jl.FRoot(), f, jl.FChild("b")}, d)
				emit(3, []jl.Frag{jl.FRoot(), jl.FNth(-2), f, jl.FWild()}, jl.Arr(d, jl.Int(77)))
			}
		}
	}
	// `$`-rooted MULTI-valued operands (wildcard, union, slice, descent), on either side of ==, != and <: must be resolved against the root
	{
		rfs := []jl.Frag{jl.FWild(), jl.FUnion(0, 1), jl.FUnion(1, 5), jl.FSlice(0, 2, A), jl.FSlice(1, A, A), jl.FDesc()}
		for _, rf := range rfs {
			for _, cmp := range []string{"eq", "ne", "lt"} {
				for _, sw := range []bool{false, true} {
					f := jl.FFilterMR("a", cmp, sw, "rk", rf)
					for _, ct := range []cont{{"arr", 1}, {"arr", 4}, {"obj", 3}} {
						c := &ctr{n: 100}
						d := mkCont(ct, "rkobj", c)
						root := jl.Obj("p", d, "rk", jl.Arr(jl.Int(11), jl.Int(13), jl.Int(12)))
						emit(3, []jl.Frag{jl.FRoot(), jl.FChild("p"), f}, root)
						emit(3, []jl.Frag{jl.FRoot(), jl.FChild("p"), f, jl.FChild("b")}, root)
						if cmp == "eq" {
							emit(3, []jl.Frag{jl.FRoot(), jl.FChild("p"), f}, jl.Obj("p", d))                                // the root has no rk
							emit(3, []jl.Frag{jl.FRoot(), jl.FChild("p"), f, jl.FWild()}, jl.Obj("p", d, "rk", jl.Arr(jl.Int(10)))) // one value only
						}
					}
				}
			}
		}
	}
	// a descent DIRECTLY behind a fragment that selects several elements, where the first selected element has no match and a later one
	// has it only two or three levels down (shared by the evaluators and, through rowsDoc / afterDescent, by the mutators)
	for _, oc := range []bool{false, true} {
		for _, mf := range multiBeforeDescent() {
			for _, tail := range afterDescent() {
				d := rowsDoc(oc)
				emit(4, append([]jl.Frag{jl.FRoot(), jl.FChild("rows"), mf, jl.FDesc()}, tail...), d) // fragment under test: the descent
				emit(3, append([]jl.Frag{jl.FRoot(), mf, jl.FDesc()}, tail...), jl.Norm(d["o"].([]jl.Node)[1]))
			}
		}
	}
	// a multi-valued `@` operand whose values are look-alikes of different kinds (1 / "1", true / "true", null / "<nil>") in both orders,
	// against a constant of each kind
	for _, fr := range []jl.Frag{jl.FWild(), jl.FSlice(0, A, A), jl.FUnion(0, 1), jl.FUnion(1, 0)} {
		for _, cst := range []jl.Node{jl.Int(1), jl.Str("1"), jl.Bool(true), jl.Str("true"), jl.Null(), jl.Str("<nil>"), jl.Str("2")} {
			for _, cmp := range []string{"eq", "ne"} {
				for _, sw := range []bool{false, true} {
					if cmp == "ne" && sw {
						continue
					}
					f := jl.FFilterMC("tags", fr, cmp, sw, cst)
					for _, ct := range []cont{{"arr", 8}, {"obj", 4}} {
						c := &ctr{n: 100}
						d := mkCont(ct, "alike", c)
						emit(2, []jl.Frag{jl.FRoot(), f}, d)
						emit(2, []jl.Frag{jl.FRoot(), f, jl.FChild("b")}, d)
					}
				}
			}
		}
	}
	// the same look-alikes in a multi-valued `$`-rooted operand (class mr), both orders
	for _, rk := range [][]jl.Node{{jl.Int(1), jl.Str("1")}, {jl.Str("1"), jl.Int(1)}, {jl.Bool(true), jl.Str("true")}, {jl.Str("true"), jl.Bool(true)}, {jl.Null(), jl.Str("<nil>")}, {jl.Str("<nil>"), jl.Null()}} {
		for _, rf := range []jl.Frag{jl.FWild(), jl.FSlice(0, A, A)} {
			for _, sw := range []bool{false, true} {
				c := &ctr{n: 100}
				els := jl.Arr(jl.Obj("a", jl.Int(1), "b", c.next()), jl.Obj("a", jl.Str("1"), "b", c.next()), jl.Obj("a", jl.Bool(true), "b", c.next()),
					jl.Obj("a", jl.Str("true"), "b", c.next()), jl.Obj("a", jl.Null(), "b", c.next()), jl.Obj("a", jl.Str("<nil>"), "b", c.next()))
				root := jl.Obj("p", els, "rk", jl.Arr(rk...))
				emit(3, []jl.Frag{jl.FRoot(), jl.FChild("p"), jl.FFilterMR("a", "eq", sw, "rk", rf)}, root)
				emit(3, []jl.Frag{jl.FRoot(), jl.FChild("p"), jl.FFilterMR("a", "eq", sw, "rk", rf), jl.FChild("b")}, root)
			}
		}
	}
	// ordering comparisons across int and float (by value): fractional float constants against int / float members and elements, both sides
	for _, f := range cmpFilters() {
		shape := "num"
		if f["op"] == "cmps" {
			shape = "numel"
		}
		for _, ct := range []cont{{"arr", 0}, {"arr", 4}, {"arr", 7}, {"obj", 4}} {
			c := &ctr{n: 100}
			d := mkCont(ct, shape, c)
			emit(2, []jl.Frag{jl.FRoot(), f}, d)
			emit(3, []jl.Frag{jl.FRoot(), jl.FChild("p"), f}, jl.Obj("p", d, "q", jl.Int(9999)))
			emit(2, []jl.Frag{jl.FRoot(), f, jl.FChild("b")}, d)
		}
	}
	// scripts that are TRUE on a null element (and on scalar / container elements): the element itself is the operand
	for _, f := range []jl.Frag{
		jl.FFilter("eqs", "", jl.Null()), jl.FFilter("nes", "", jl.Null()), jl.FFilter("eqs", "", jl.Int(3)), jl.FFilter("nes", "", jl.Int(3)),
		jl.FFilter("nes", "", jl.Str("s")), jl.FFilter("gts", "", jl.Int(1)), jl.FFilter("nek", "x", jl.Int(1)), jl.FFilter("nek", "x", jl.Int(2)),
		jl.FFilter("eqnothing", "x", jl.Null()), jl.FFilter("nenull", "x", jl.Null()),
	} {
		for _, ct := range []cont{{"arr", 0}, {"arr", 1}, {"arr", 3}, {"arr", 5}, {"obj", 1}, {"obj", 4}} {
			c := &ctr{n: 100}
			d := mkCont(ct, "scal", c)
			emit(2, []jl.Frag{jl.FRoot(), f}, d)
			emit(3, []jl.Frag{jl.FRoot(), jl.FChild("a"), f}, jl.Obj("a", d, "q", jl.Int(9999)))
			emit(3, []jl.Frag{jl.FRoot(), jl.FNth(1), f}, jl.Arr(jl.Int(77), d))
			emit(2, []jl.Frag{jl.FRoot(), f, jl.FChild("w")}, d)
			emit(2, []jl.Frag{jl.FRoot(), f, jl.FWild()}, d)
			emit(3, []jl.Frag{jl.FRoot(), jl.FWild(), f}, jl.Arr(d, jl.Arr(jl.Null(), jl.Int(4242))))
		}
	}
	// child / union-of-names steps over objects of struct shape behind other fragments (embedded + shadowed struct shapes)
	{
		c := &ctr{n: 100}
		so := func() jl.Node { return jl.Obj("a", c.next(), "b", c.next()) }
		so3 := func() jl.Node { return jl.Obj("a", c.next(), "b", jl.Obj("a", c.next(), "b", c.next()), "c", c.next()) }
		docs := []jl.Node{so(), so3(), jl.Arr(so(), so3(), c.next()), jl.Obj("p", so(), "q", so3()), jl.Obj("a", so3(), "b", jl.Arr(so(), so()))}
		paths := [][]jl.Frag{
			// (names are given in the case of the keys: the struct lookup folds case, the abstract object does not - the statement is silent)
			{jl.FRoot(), jl.FChild("a")}, {jl.FRoot(), jl.FChild("b")}, {jl.FRoot(), jl.FChild("c")},
			{jl.FRoot(), jl.FUnion("a", "b")}, {jl.FRoot(), jl.FUnion("b", "a")}, {jl.FRoot(), jl.FUnion("b", "zz", "a")}, {jl.FRoot(), jl.FChild("b"), jl.FChild("a")},
			{jl.FRoot(), jl.FChild("b"), jl.FUnion("b", "a")}, {jl.FRoot(), jl.FNth(0), jl.FChild("a")}, {jl.FRoot(), jl.FNth(1), jl.FChild("b"), jl.FChild("b")},
			{jl.FRoot(), jl.FNth(-2), jl.FUnion("a", "c")}, {jl.FRoot(), jl.FChild("p"), jl.FChild("a")}, {jl.FRoot(), jl.FChild("q"), jl.FChild("b"), jl.FChild("a")},
			{jl.FRoot(), jl.FChild("q"), jl.FUnion("c", "a")}, {jl.FRoot(), jl.FChild("a"), jl.FChild("b"), jl.FChild("b")}, {jl.FRoot(), jl.FChild("b"), jl.FNth(1), jl.FChild("a")},
			{jl.FRoot(), jl.FChild("b"), jl.FNth(-1), jl.FUnion("a", "b")}, {jl.FRoot(), jl.FSlice(0, 2, A), jl.FChild("a")}, {jl.FRoot(), jl.FChild("b"), jl.FSlice(0, A, A), jl.FChild("b")},
		}
		for _, d := range docs {
			for _, p := range paths {
				emit(len(p), p, d)
			}
		}
	}
	// scripts with two multi-valued operands (some pair must match) and scripts that read the root ($.q)
	mms := []jl.Frag{
		jl.FFilterMM("a", jl.FWild(), "b", jl.FWild()),
		jl.FFilterMM("a", jl.FSlice(0, A, A), "b", jl.FSlice(1, A, A)),
		jl.FFilterMM("a", jl.FSlice(1, A, A), "b", jl.FWild()),
	}
	for _, f := range mms {
		for _, ct := range []cont{{"arr", 0}, {"arr", 1}, {"arr", 3}, {"arr", 4}, {"obj", 2}, {"obj", 4}, {"scalar", 0}} {
			c := &ctr{n: 100}
			d := mkCont(ct, "mm", c)
			emit(2, []jl.Frag{jl.FRoot(), f}, d)
			emit(3, []jl.Frag{jl.FRoot(), jl.FChild("p"), f}, jl.Obj("p", d, "q", jl.Int(9999)))
			emit(2, []jl.Frag{jl.FRoot(), f, jl.FChild("c")}, d)
			emit(3, []jl.Frag{jl.FRoot(), jl.FNth(-2), f, jl.FChild("a"), jl.FNth(-1)}, jl.Arr(d, jl.Int(77)))
		}
	}
	for _, q := range []jl.Node{jl.Int(11), jl.Int(13), jl.Int(99), jl.Str("s1")} {
		for _, key := range []string{"a", "b"} {
			for _, ct := range []cont{{"arr", 0}, {"arr", 2}, {"arr", 4}, {"obj", 3}} {
				c := &ctr{n: 100}
				d := mkCont(ct, "obj", c)
				f := jl.FFilterRoot(key, "q")
				emit(3, []jl.Frag{jl.FRoot(), jl.FChild("p"), f}, jl.Obj("p", d, "q", q))
				emit(3, []jl.Frag{jl.FRoot(), jl.FChild("p"), f, jl.FChild("b")}, jl.Obj("p", d, "q", q))
				emit(3, []jl.Frag{jl.FRoot(), jl.FChild("p"), f, jl.FWild()}, jl.Obj("p", d, "q", q))
				emit(3, []jl.Frag{jl.FRoot(), jl.FChild("p"), f}, jl.Obj("p", d)) // the root has no q
				emit(2, []jl.Frag{jl.FRoot(), f}, d)                              // the root is the container itself
			}
		}
	}
	// paths that do not start at the root, bracket form, two focus fragments in a row
	c := &ctr{n: 100}
	d := mkCont(cont{"arr", 4}, "arr", c)
	for _, s := range []int{-5, -1, 0, 1, 3, A} {
		for _, e := range []int{-5, -1, 0, 2, 4, A} {
			for _, st := range []int{-2, -1, 1, 2, A} {
				emit(1, []jl.Frag{jl.FSlice(s, e, st)}, d)
				emit(2, []jl.Frag{jl.FAt(), jl.FSlice(s, e, st), jl.FNth(0)}, d)
				emit(2, []jl.Frag{jl.FBracket(), jl.FSlice(s, e, st), jl.FSlice(0, 1, A)}, d)
				emit(3, []jl.Frag{jl.FRoot(), jl.FWild(), jl.FSlice(s, e, st)}, d)
			}
		}
	}
}

// rowsDoc: {"q": .., "rows": R}; R (array, or object when objCont) has four elements each with an id; the first has no k / a.b / array
// below it, the second has k three levels down and a.b two levels down, the third has k two levels down inside an array, the fourth has
// k at its top.
func rowsDoc(objCont bool) jl.Node {
	c := &ctr{n: 100}
	els := []jl.Node{
		jl.Obj("id", jl.Int(1), "z", c.next()),
		jl.Obj("id", jl.Int(2), "m", jl.Obj("n", jl.Obj("k", c.next())), "a", jl.Obj("b", c.next())),
		jl.Obj("id", jl.Int(3), "u", jl.Arr(jl.Obj("k", c.next()), c.next())),
		jl.Obj("id", jl.Int(4), "k", c.next()),
	}
	var rows jl.Node
	if objCont {
		rows = jl.Obj("a", els[0], "b", els[1], "c", els[2], "d", els[3])
	} else {
		rows = jl.Arr(els...)
	}
	return jl.Obj("q", jl.Int(9999), "rows", rows)
}

// cmpFilters: `@.a <cmp> c`, `c <cmp> @.a`, `@ <cmp> c` with c = 8.75, -2.5, 0.5, 8 (ints against float members too)
func cmpFilters() []jl.Frag {
	out := []jl.Frag{}
	for _, c := range []jl.Node{jl.Flt(35, 2), jl.Flt(-5, 1), jl.Flt(1, 1), jl.Int(8), jl.Int(-2)} {
		for _, cmp := range []string{"lt", "gt", "le", "ge"} {
			out = append(out, jl.FFilterCmp("a", cmp, false, c), jl.FFilterCmp("a", cmp, true, c), jl.FFilterCmp("", cmp, false, c))
		}
	}
	return out
}

func multiBeforeDescent() []jl.Frag {
	A := jl.Absent
	return []jl.Frag{jl.FWild(), jl.FUnion(0, 1, 2), jl.FUnion("a", "b", "c"), jl.FSlice(0, 3, A), jl.FSlice(A, A, A), jl.FFilter("gtk", "id", jl.Int(0)), jl.FFilter("exk", "id", jl.Null())}
}

func afterDescent() [][]jl.Frag {
	return [][]jl.Frag{{jl.FChild("k")}, {jl.FChild("a"), jl.FChild("b")}, {jl.FNth(0)}, {jl.FWild()}, {jl.FChild("n"), jl.FWild()}, {jl.FNth(0), jl.FChild("k")}}
}

// ---------------------------------------------------------------- random trees and paths
var keyPool = []string{"a", "b", "c", "d", "e", "k"}

type rgen struct {
	r     *rand.Rand
	c     ctr
	null  bool
	t, f  bool
	empty [2]bool
}

func (g *rgen) leaf() jl.Node {
	switch x := g.r.Intn(12); {
	case x == 0 && !g.null:
		g.null = true
		return jl.Null()
	case x == 1 && !g.t:
		g.t = true
		return jl.Bool(true)
	case x == 2 && !g.f:
		g.f = true
		return jl.Bool(false)
	case x <= 5:
		g.c.n++
		return jl.Str("s" + strconv.FormatInt(g.c.n, 10))
	}
	return g.c.next()
}

func (g *rgen) tree(depth int) jl.Node {
	if depth <= 0 || g.r.Intn(5) == 0 {
		return g.leaf()
	}
	if g.r.Intn(2) == 0 {
		n := g.r.Intn(7)
		if n == 0 {
			if g.empty[0] {
				n = 1
			}
			g.empty[0] = true
		}
		es := []jl.Node{}
		for i := 0; i < n; i++ {
			es = append(es, g.tree(depth-1))
		}
		return jl.Arr(es...)
	}
	n := g.r.Intn(5)
	if n == 0 {
		if g.empty[1] {
			n = 1
		}
		g.empty[1] = true
	}
	m := map[string]jl.Node{}
	for _, i := range g.r.Perm(len(keyPool))[:n] {
		m[keyPool[i]] = g.tree(depth - 1)
	}
	return jl.ObjOf(m)
}

func (g *rgen) bound(lim int) int {
	if g.r.Intn(6) == 0 {
		return jl.Absent
	}
	return g.r.Intn(2*lim+1) - lim
}

// frag draws one fragment; with probability 3/4 it is guided by the node cur (a node the path so far
// selects) so that paths keep selecting something; next is a node the new fragment selects from cur (or nil).
func (g *rgen) frag(allowDesc bool, cur jl.Node) (f jl.Frag, next jl.Node) {
	r := g.r
	guided := cur != nil && r.Intn(4) > 0
	es, ks, vs := jl.Elems(cur), jl.Keys(cur), jl.Vals(cur)
	pickKey := func() string {
		if guided && len(ks) > 0 {
			return ks[r.Intn(len(ks))]
		}
		return keyPool[r.Intn(len(keyPool))]
	}
	pickIdx := func() int {
		if guided && len(es) > 0 {
			i := r.Intn(len(es))
			if r.Intn(2) == 0 {
				return i - len(es)
			}
			return i
		}
		return r.Intn(13) - 6
	}
	anyKid := func() jl.Node {
		if len(es) > 0 {
			return es[r.Intn(len(es))]
		}
		if len(vs) > 0 {
			return vs[r.Intn(len(vs))]
		}
		return nil
	}
	x := r.Intn(20)
	if guided {
		// steer towards fragments that fit the container kind
		if jl.IsArr(cur) && x < 4 {
			x = 4 + r.Intn(12)
		} else if jl.IsObj(cur) && x >= 4 && x < 7 {
			x = r.Intn(4)
		}
	}
	switch {
	case x < 4:
		k := pickKey()
		for i, kk := range ks {
			if kk == k {
				next = vs[i]
			}
		}
		return jl.FChild(k), next
	case x < 7:
		i := pickIdx()
		j := i
		if j < 0 {
			j += len(es)
		}
		if 0 <= j && j < len(es) {
			next = es[j]
		}
		return jl.FNth(i), next
	case x < 10:
		return jl.FWild(), anyKid()
	case x < 12:
		n := 1 + r.Intn(3)
		items := []any{}
		for i := 0; i < n; i++ {
			if (guided && jl.IsObj(cur)) || (!guided && r.Intn(2) == 0) {
				items = append(items, pickKey())
			} else {
				items = append(items, pickIdx())
			}
		}
		return jl.FUnion(items...), anyKid()
	case x < 16:
		st := jl.Absent
		if r.Intn(3) > 0 {
			st = r.Intn(7) - 3
		}
		lim := 8
		if guided {
			lim = len(es) + 2
		}
		return jl.FSlice(g.bound(lim), g.bound(lim), st), anyKid()
	case x < 18:
		k := keyPool[r.Intn(len(keyPool))]
		if kid := anyKid(); guided && kid != nil && len(jl.Keys(kid)) > 0 {
			k = jl.Keys(kid)[r.Intn(len(jl.Keys(kid)))]
		}
		top := int(g.c.n) + 1
		switch r.Intn(5) {
		case 0:
			return jl.FFilter("eqk", k, jl.Int(int64(r.Intn(top)))), anyKid()
		case 1:
			return jl.FFilter("gtk", k, jl.Int(int64(r.Intn(top)))), anyKid()
		case 2:
			return jl.FFilter("exk", k, jl.Null()), anyKid()
		case 3:
			return jl.FFilter("eqs", "", jl.Int(int64(r.Intn(top)))), anyKid()
		}
		return jl.FFilter("gts", "", jl.Int(int64(r.Intn(top)))), anyKid()
	default:
		if allowDesc {
			return jl.FDesc(), anyKid()
		}
		return jl.FWild(), anyKid()
	}
}

func random(args []string) {
	fs := flag.NewFlagSet("random", flag.ExitOnError)
	n := fs.Int("n", 1000, "number of cases")
	noDescLast := fs.Bool("nodesc-last", false, "no path ends in a bare descent (C11)")
	fs.Parse(args)
	out := bufio.NewWriterSize(os.Stdout, 1<<20)
	defer out.Flush()
	r := rand.New(rand.NewSource(seed()*7919 + 13))
	for id := 1; id <= *n; id++ {
		g := &rgen{r: r, c: ctr{n: 0}}
		data := g.tree(2 + r.Intn(3))
		path := []jl.Frag{jl.FRoot()}
		nf := 1 + r.Intn(5)
		desc := false
		cur := data
		for i := 0; i < nf; i++ {
			f, next := g.frag(!desc && !(*noDescLast && i == nf-1), cur)
			if f["f"] == "desc" {
				desc = true
			}
			path = append(path, f)
			cur = next
		}
		b, _ := json.Marshal(Case{ID: id, Src: "random", Fx: 0, Path: path, Data: data})
		out.Write(b)
		out.WriteByte('\n')
	}
}

// ---------------------------------------------------------------- exec
type listRes struct {
	P bool      `json:"p"` // panicked
	M string    `json:"m,omitempty"`
	R []jl.Node `json:"r"`
}
type valRes struct {
	P bool    `json:"p"`
	M string  `json:"m,omitempty"`
	H bool    `json:"h"` // found / reported true
	R jl.Node `json:"r"`
}
type locRes struct {
	P bool    `json:"p"`
	M string  `json:"m,omitempty"`
	N bool    `json:"n"` // every reported path is Normal()
	R [][]any `json:"r"`
}
type walkCb struct {
	Path  []any     `json:"path"`
	Nodes []jl.Node `json:"nodes"`
}
type walkRes struct {
	P bool     `json:"p"`
	M string   `json:"m,omitempty"`
	N bool     `json:"n"`
	R []walkCb `json:"r"`
}
type obs struct {
	As    []string `json:"as"`
	Get   *listRes `json:"get,omitempty"`
	First *valRes  `json:"first,omitempty"`
	FF    *valRes  `json:"ff,omitempty"`
	Has   *valRes  `json:"has,omitempty"`
	Loc0  *locRes  `json:"loc0,omitempty"`
	Loc1  *locRes  `json:"loc1,omitempty"`
	Loc2  *locRes  `json:"loc2,omitempty"`
	Walk  *walkRes `json:"walk,omitempty"`
	G     bool     `json:"g"` // gen-only evaluators present
	GetN  *listRes `json:"getn,omitempty"`
	FirstN *valRes `json:"firstn,omitempty"`
}

// current evaluator / representation, for the watchdog of the isolated (-one) mode
var curEval, curRep atomic.Value

func guard(fn func()) (msg string, panicked bool) {
	if notRun.Load() {
		return "not-run", true
	}
	defer func() {
		if r := recover(); r != nil {
			msg = fmt.Sprintf("%T: %v", r, r)
			if len(msg) > 120 {
				msg = msg[:120]
			}
			panicked = true
		}
	}()
	fn()
	return
}

func projAll(vs []any) []jl.Node {
	out := make([]jl.Node, len(vs))
	for i, v := range vs {
		out[i] = jl.Project(v)
	}
	return out
}

func doGet(x jp.Expr, data any) *listRes {
	res := &listRes{R: []jl.Node{}}
	res.M, res.P = guard(func() { res.R = projAll(x.Get(data)) })
	return res
}

func doLocate(x jp.Expr, data any, max int) *locRes {
	res := &locRes{R: [][]any{}, N: true}
	res.M, res.P = guard(func() {
		for _, l := range x.Locate(data, max) {
			st, normal := jl.Steps(l)
			if !normal || !l.Normal() {
				res.N = false
			}
			res.R = append(res.R, st)
		}
	})
	return res
}

var notRun atomic.Bool

func observe(x jp.Expr, data any, set string) *obs {
	curEval.Store("Get")
	o := &obs{Get: doGet(x, data)}
	if set == "c05" {
		return o
	}
	curEval.Store("First")
	o.First = &valRes{R: jl.Null()}
	o.First.M, o.First.P = guard(func() { v := x.First(data); o.First.R = jl.Project(v); o.First.H = v != nil })
	curEval.Store("FirstFound")
	o.FF = &valRes{R: jl.Null()}
	o.FF.M, o.FF.P = guard(func() { v, h := x.FirstFound(data); o.FF.R = jl.Project(v); o.FF.H = h })
	curEval.Store("Has")
	o.Has = &valRes{R: jl.Null()}
	o.Has.M, o.Has.P = guard(func() { o.Has.H = x.Has(data) })
	curEval.Store("Locate0")
	o.Loc0 = doLocate(x, data, 0)
	curEval.Store("Locate1")
	o.Loc1 = doLocate(x, data, 1)
	curEval.Store("Locate2")
	o.Loc2 = doLocate(x, data, 2)
	curEval.Store("Walk")
	o.Walk = &walkRes{R: []walkCb{}, N: true}
	o.Walk.M, o.Walk.P = guard(func() {
		x.Walk(data, func(path jp.Expr, nodes []any) {
			st, normal := jl.Steps(path)
			if !normal {
				o.Walk.N = false
			}
			o.Walk.R = append(o.Walk.R, walkCb{Path: st, Nodes: projAll(nodes)})
		})
	})
	if n, ok := data.(gen.Node); ok || data == nil {
		o.G = true
	curEval.Store("GetNodes")
		o.GetN = &listRes{R: []jl.Node{}}
		o.GetN.M, o.GetN.P = guard(func() {
			for _, v := range x.GetNodes(n) {
				o.GetN.R = append(o.GetN.R, jl.Project(v))
			}
		})
	curEval.Store("FirstNode")
		o.FirstN = &valRes{R: jl.Null()}
		o.FirstN.M, o.FirstN.P = guard(func() { v := x.FirstNode(n); o.FirstN.R = jl.Project(v); o.FirstN.H = v != nil })
	}
	return o
}

// stepZero: the path has a slice with an explicit step 0. Locate on a reflect slice/array then never returns
// (finding C11-1), so those representations are only exercised in the isolated -one mode.
func stepZero(c *Case) bool {
	for _, f := range c.Path {
		if f["f"] == "slice" && f["sta"] == false && jl.ToInt(f["st"]) == 0 {
			return true
		}
	}
	return false
}

// maxLenAll: the longest array or object (a collection that is Keyed and Indexed takes slices over its members)
func maxLenAll(n jl.Node) int {
	m := len(jl.Elems(n))
	if len(jl.Vals(n)) > m {
		m = len(jl.Vals(n))
	}
	for _, e := range jl.Elems(n) {
		if x := maxLenAll(e); x > m {
			m = x
		}
	}
	for _, e := range jl.Vals(n) {
		if x := maxLenAll(e); x > m {
			m = x
		}
	}
	return m
}

var multiThin = 1

func runCase(c *Case, set string, only string) {
	maxLen := jl.MaxArrLen(c.Data)
	if set == "c11" {
		maxLen = maxLenAll(c.Data)
	}
	for _, f := range c.Path {
		if f["f"] == "slice" {
			f["pr"] = jl.Probe(f, maxLen)
		}
	}
	x := jl.Expr(c.Path)
	c.PS = x.String()
	routes := []struct {
		name string
		x    jp.Expr
	}{{"built", x}}
	if xp, err := jp.ParseString(c.PS); err == nil && jl.SameShape(x, xp) {
		routes = append(routes, struct {
			name string
			x    jp.Expr
		}{"parsed", xp})
	} else {
		c.Note = "printed form does not parse back to the same expression (C14's business): parsed route skipped"
	}
	reps := []string{"simple", "gen"}
	if set == "c11" {
		reps = append([]string{}, jl.Reps...)
		// the multi-interface representations: every case of the TLC cell table and every matrix case whose focus is not a
		// slice; of the slice matrix and the random cases one in multiThin (quick tier 4, thorough 1)
		thin := c.Src != "cells"
		if c.Src == "matrix" && 1 <= c.Fx && c.Fx <= len(c.Path) && c.Path[c.Fx-1]["f"] != "slice" {
			thin = false
		}
		if !thin || multiThin <= 1 || c.ID%multiThin == 0 {
			reps = append(reps, jl.MultiReps...)
		}
		if stepZero(c) {
			reps = []string{"simple", "gen", "struct", "pstruct", "keyed", "both"}
		}
	}
	if only != "" {
		reps = []string{only}
	}
	groups := map[string]*obs{}
	order := []string{}
	simpleKey := ""
	for _, rep := range reps {
		for ri, rt := range routes {
			if ri > 0 && rep != "simple" && set == "c11" {
				continue
			}
			data, used := jl.Build(rep, c.Data)
			if !used {
				continue
			}
			curRep.Store(rep)
			o := observe(rt.x, data, set)
			if set == "c11" && o.G && rep != "gen" {
				// a nil root is both "simple" and "gen": keep the gen-only evaluators with the gen representation
				o.G, o.GetN, o.FirstN = false, nil, nil
			}
			b, _ := json.Marshal(o)
			key := string(b)
			if rep == "both" {
				// judged against the reading in which an object is also indexed (TraceJsonPath!IsBoth): a group of its own
				key = "both|" + key
			}
			// struct representations: an observation equal to the one made on simple data joins that group (nothing specific to
			// structs); any other gets a group of its own family, because its deviations are compared with the as-implemented
			// struct reading (TraceJsonPath!SIOf) and must not be merged with those of typed slices, arrays, ...
			if rep == "struct" || rep == "pstruct" || rep == "mstruct" || rep == "pmstruct" {
				if key != simpleKey {
					if rep == "struct" || rep == "pstruct" {
						key = "s|" + key
					} else {
						key = "m|" + key
					}
				}
			}
			if rep == "simple" && rt.name == "built" {
				simpleKey = key
			}
			if g, ok := groups[key]; ok {
				g.As = append(g.As, rep+"/"+rt.name)
			} else {
				o.As = []string{rep + "/" + rt.name}
				groups[key] = o
				order = append(order, key)
			}
		}
	}
	c.O = nil
	for _, k := range order {
		c.O = append(c.O, groups[k])
	}
}

func execCases(args []string) {
	fs := flag.NewFlagSet("exec", flag.ExitOnError)
	set := fs.String("set", "c05", "c05 | c11")
	fs.IntVar(&multiThin, "multi-thin", 1, "run the multi-interface representations on one in N of the slice-matrix and random cases")
	one := fs.String("one", "", "isolated mode: run the single case on stdin on this representation only, with a 2 s / 400 MB watchdog")
	fs.Parse(args)
	if *one != "" {
		execOne(*set, *one)
		return
	}
	parallel(os.Stdin, os.Stdout, func(line []byte) []byte {
		var c Case
		if err := json.Unmarshal(line, &c); err != nil {
			panic(err)
		}
		c.Data = jl.Norm(c.Data)
		runCase(&c, *set, "")
		b, err := json.Marshal(c)
		if err != nil {
			panic(err)
		}
		return b
	})
}

// execOne runs one case on one representation. An evaluator that does not return within 2 s (or allocates more
// than 400 MB) is recorded as {p: true, m: "hang"}; the evaluators after it are marked "not-run" (no verdict).
func execOne(set, rep string) {
	sc := bufio.NewScanner(os.Stdin)
	sc.Buffer(make([]byte, 1<<20), 1<<28)
	if !sc.Scan() {
		return
	}
	var c Case
	if err := json.Unmarshal(sc.Bytes(), &c); err != nil {
		panic(err)
	}
	c.Data = jl.Norm(c.Data)
	for _, f := range c.Path {
		if f["f"] == "slice" {
			f["pr"] = jl.Probe(f, jl.MaxArrLen(c.Data))
		}
	}
	x := jl.Expr(c.Path)
	c.PS = x.String()
	data, _ := jl.Build(rep, c.Data)
	// run the evaluators one at a time, each in its own goroutine; the first that hangs ends the sequence
	evals := []string{"Get", "First", "FirstFound", "Has", "Locate0", "Locate1", "Locate2", "Walk"}
	o := &obs{As: []string{rep + "/built"}}
	hung := ""
	for _, ev := range evals {
		if hung != "" {
			break
		}
		done := make(chan struct{})
		go func() {
			defer close(done)
			switch ev {
			case "Get":
				o.Get = doGet(x, data)
			case "First":
				o.First = &valRes{R: jl.Null()}
				o.First.M, o.First.P = guard(func() { v := x.First(data); o.First.R = jl.Project(v); o.First.H = v != nil })
			case "FirstFound":
				o.FF = &valRes{R: jl.Null()}
				o.FF.M, o.FF.P = guard(func() { v, h := x.FirstFound(data); o.FF.R = jl.Project(v); o.FF.H = h })
			case "Has":
				o.Has = &valRes{R: jl.Null()}
				o.Has.M, o.Has.P = guard(func() { o.Has.H = x.Has(data) })
			case "Locate0":
				o.Loc0 = doLocate(x, data, 0)
			case "Locate1":
				o.Loc1 = doLocate(x, data, 1)
			case "Locate2":
				o.Loc2 = doLocate(x, data, 2)
			case "Walk":
				w := &walkRes{R: []walkCb{}, N: true}
				w.M, w.P = guard(func() {
					x.Walk(data, func(path jp.Expr, nodes []any) {
						st, normal := jl.Steps(path)
						if !normal {
							w.N = false
						}
						w.R = append(w.R, walkCb{Path: st, Nodes: projAll(nodes)})
					})
				})
				o.Walk = w
			}
		}()
		deadline := time.After(2 * time.Second)
		tick := time.NewTicker(20 * time.Millisecond)
	wait:
		for {
			select {
			case <-done:
				break wait
			case <-deadline:
				hung = ev
				break wait
			case <-tick.C:
				var ms runtime.MemStats
				runtime.ReadMemStats(&ms)
				if ms.HeapAlloc > 400<<20 {
					hung = ev
					break wait
				}
			}
		}
		tick.Stop()
	}
	fill := func(ev string) string {
		if ev == hung {
			return "hang"
		}
		return "not-run"
	}
	if hung != "" {
		// the goroutine of the hung evaluator may still write its field: replace the whole observation
		o2 := &obs{As: o.As}
		seen := false
		for _, ev := range evals {
			if ev == hung {
				seen = true
			}
			m := ""
			if seen {
				m = fill(ev)
			}
			switch ev {
			case "Get":
				o2.Get = o.Get
				if seen {
					o2.Get = &listRes{P: true, M: m, R: []jl.Node{}}
				}
			case "First":
				o2.First = o.First
				if seen {
					o2.First = &valRes{P: true, M: m, R: jl.Null()}
				}
			case "FirstFound":
				o2.FF = o.FF
				if seen {
					o2.FF = &valRes{P: true, M: m, R: jl.Null()}
				}
			case "Has":
				o2.Has = o.Has
				if seen {
					o2.Has = &valRes{P: true, M: m, R: jl.Null()}
				}
			case "Locate0":
				o2.Loc0 = o.Loc0
				if seen {
					o2.Loc0 = &locRes{P: true, M: m, R: [][]any{}}
				}
			case "Locate1":
				o2.Loc1 = o.Loc1
				if seen {
					o2.Loc1 = &locRes{P: true, M: m, R: [][]any{}}
				}
			case "Locate2":
				o2.Loc2 = o.Loc2
				if seen {
					o2.Loc2 = &locRes{P: true, M: m, R: [][]any{}}
				}
			case "Walk":
				o2.Walk = o.Walk
				if seen {
					o2.Walk = &walkRes{P: true, M: m, R: []walkCb{}}
				}
			}
		}
		o = o2
	}
	c.O = []any{o}
	b, _ := json.Marshal(c)
	os.Stdout.Write(append(b, '\n'))
	os.Exit(0)
}

// shrinkCands proposes smaller variants of each case read from stdin (field "parent" = id of the original):
// one fragment dropped, or the data replaced by a node the real Get reaches with a prefix of the path and the
// path by the remaining fragments. Whether a variant still deviates is decided by TLC like any other case.
func shrinkCands(args []string) {
	sc := bufio.NewScanner(os.Stdin)
	sc.Buffer(make([]byte, 1<<20), 1<<28)
	out := bufio.NewWriterSize(os.Stdout, 1<<20)
	defer out.Flush()
	type cand struct {
		Case
		Parent int `json:"parent"`
	}
	for sc.Scan() {
		if len(sc.Bytes()) == 0 {
			continue
		}
		var c Case
		if err := json.Unmarshal(sc.Bytes(), &c); err != nil {
			panic(err)
		}
		c.Data = jl.Norm(c.Data)
		emit := func(path []jl.Frag, data jl.Node) {
			steppers := 0
			for _, f := range path {
				if f["f"] != "root" && f["f"] != "at" && f["f"] != "bracket" {
					steppers++
				}
			}
			if steppers == 0 {
				return
			}
			b, _ := json.Marshal(cand{Case: Case{ID: 0, Src: "shrunk", Fx: 0, Path: path, Data: data}, Parent: c.ID})
			out.Write(b)
			out.WriteByte('\n')
		}
		for i := range c.Path {
			if c.Path[i]["f"] == "root" {
				continue
			}
			np := append(append([]jl.Frag{}, c.Path[:i]...), c.Path[i+1:]...)
			emit(np, c.Data)
		}
		simple, _ := jl.Build("simple", c.Data)
		for p := 1; p < len(c.Path)-1; p++ {
			if c.Path[p]["f"] == "root" {
				continue
			}
			var nodes []any
			guard(func() { nodes = jl.Expr(c.Path[:p+1]).Get(simple) })
			seen := 0
			for _, n := range nodes {
				switch n.(type) {
				case []any, map[string]any:
					if seen < 4 {
						seen++
						emit(append([]jl.Frag{jl.FRoot()}, c.Path[p+1:]...), jl.Project(n))
					}
				}
			}
		}
	}
}

// parallel maps fn over the lines of in, keeping order; a case that does not return within 30 s is
// reported as HANG on stderr with exit status 3.
func parallel(in *os.File, outf *os.File, fn func([]byte) []byte) {
	sc := bufio.NewScanner(in)
	sc.Buffer(make([]byte, 1<<20), 1<<28)
	out := bufio.NewWriterSize(outf, 1<<20)
	defer out.Flush()
	nw := runtime.NumCPU() / 2
	if nw < 2 {
		nw = 2
	}
	if nw > 8 {
		nw = 8
	}
	const batch = 4096
	for {
		lines := [][]byte{}
		for len(lines) < batch && sc.Scan() {
			if len(sc.Bytes()) > 0 {
				lines = append(lines, append([]byte{}, sc.Bytes()...))
			}
		}
		if len(lines) == 0 {
			return
		}
		res := make([][]byte, len(lines))
		var wg sync.WaitGroup
		next := make(chan int, len(lines))
		for i := range lines {
			next <- i
		}
		close(next)
		for w := 0; w < nw; w++ {
			wg.Add(1)
			go func() {
				defer wg.Done()
				for i := range next {
					done := make(chan struct{})
					go func() {
						select {
						case <-done:
						case <-time.After(30 * time.Second):
							fmt.Fprintf(os.Stderr, "HANG %s\n", lines[i])
							os.Exit(3)
						}
					}()
					res[i] = fn(lines[i])
					close(done)
				}
			}()
		}
		wg.Wait()
		for _, b := range res {
			out.Write(b)
			out.WriteByte('\n')
		}
	}
}
