package main

// C13 follow-up (round 7): representation x mutator x trailing-fragment x modifier-class cells.
//   - further flavours of the replayed document: a user jp.Keyed parent holding PLAIN slices ("kplain"), a user jp.Indexed parent
//     holding plain maps ("iplain"), typed maps with a NAMED key type ("nmap": map[Color]any, "nmapi": map[Color]int64 where every
//     member is an int), typed slices ("tslice"), Go arrays ("array")
//   - modifier classes that hand back the SAME collection: a re-slice of the argument ("trunc"), an append into the argument
//     ("grow"), the same map with a member added ("mapset")
//   - filters whose `$` operand points INTO the container being mutated ("eqp": `@ == $<rp>` / `@.key == $<rp>`, rp a chain of
//     names and indexes), resolved by the trace specification against the document BEFORE the call (TraceJsonPathStore!ResM)
// The cell table (operation x flavour x trailing kind x modifier class) is enumerated by TLC (spec/JsonPathStoreCells.tla);
// this file only turns a cell into concrete (document, path, argument) behaviours.

import (
	"reflect"
	"sort"

	"github.com/ohler55/ojg/gen"
	"github.com/ohler55/ojg/jp"

	jl "verif/harness/jplib"
)

// Color is a defined string type used as the key type of typed maps.
type Color string

var extraFlavours = []string{"kplain", "iplain", "nmap", "nmapi", "tslice", "array"}

// typedFlavour: flavours held in Go types the statement does not name; see TraceJsonPathStore!TypedErr for the allowance.
func buildFl(fl string, n jl.Node) any {
	switch fl {
	case "kplain", "iplain", "nmap", "nmapi", "tslice":
	default:
		v, _ := jl.Build(fl, n)
		return v
	}
	if jl.IsArr(n) {
		es := jl.Elems(n)
		kids := make([]any, len(es))
		allInt := len(es) > 0
		for i, e := range es {
			kids[i] = buildFl(fl, e)
			if _, ok := kids[i].(int64); !ok {
				allInt = false
			}
		}
		switch {
		case fl == "iplain":
			return &jl.IdxList{V: kids}
		case fl == "tslice" && allInt:
			out := make([]int64, len(kids))
			for i := range kids {
				out[i] = kids[i].(int64)
			}
			return out
		}
		return kids
	}
	if jl.IsObj(n) {
		ks, vs := jl.Keys(n), jl.Vals(n)
		kids := make([]any, len(vs))
		allInt := len(vs) > 0
		leaf := true
		for i, e := range vs {
			kids[i] = buildFl(fl, e)
			if _, ok := kids[i].(int64); !ok {
				allInt = false
			}
			if jl.IsArr(e) || jl.IsObj(e) {
				leaf = false
			}
		}
		switch {
		case fl == "kplain":
			return &jl.OrdKeyed{K: append([]string{}, ks...), V: kids}
		case (fl == "nmap" || fl == "nmapi") && !leaf:
			// typed maps are leaf containers here (held by plain parents, as lookup tables usually are)
		case fl == "nmapi" && allInt:
			out := map[Color]int64{}
			for i, k := range ks {
				out[Color(k)] = kids[i].(int64)
			}
			return out
		case fl == "nmap" || fl == "nmapi":
			out := map[Color]any{}
			for i, k := range ks {
				out[Color(k)] = kids[i]
			}
			return out
		}
		out := make(map[string]any, len(ks))
		for i, k := range ks {
			out[k] = kids[i]
		}
		return out
	}
	v, _ := jl.Build("simple", n)
	return v
}

// exprOf is jl.Expr plus the "eqp" filter (`@ == $<rp>` / `@.key == $<rp>`).
func exprOf(path []jl.Frag) jp.Expr {
	plain := true
	for _, f := range path {
		if f["f"] == "filter" && f["op"] == "eqp" {
			plain = false
		}
	}
	if plain {
		return jl.Expr(path)
	}
	x := jp.X()
	for _, f := range path {
		if f["f"] == "filter" && f["op"] == "eqp" {
			l := jp.A()
			if k, ok := f["key"].(string); ok && k != "" {
				l = l.C(k)
			}
			r := jp.R()
			rp, _ := f["rp"].([]any)
			for _, s := range rp {
				m, _ := s.(map[string]any)
				if k, ok := m["k"]; ok {
					r = r.C(k.(string))
				} else {
					r = r.N(int(jl.ToInt(m["i"])))
				}
			}
			x = x.F(jp.Eq(jp.Get(l), jp.Get(r)))
			continue
		}
		x = append(x, jl.Expr([]jl.Frag{f})...)
	}
	return x
}

// FFilterInto is `@ == $<rp>` (key ""), `@.key == $<rp>`; rp: string = member name, int = index.
func FFilterInto(key string, rp ...any) jl.Frag {
	steps := []any{}
	for _, s := range rp {
		if k, ok := s.(string); ok {
			steps = append(steps, map[string]any{"k": k})
		} else {
			steps = append(steps, map[string]any{"i": s.(int)})
		}
	}
	f := jl.Frag{"f": "filter", "op": "eqp", "rp": steps, "c": jl.Null()}
	if key != "" {
		f["key"] = key
	}
	return f
}

// nativeMod: the modifier classes that return the collection they were given (no copy, no conversion).
//
//	trunc  an array -> its first len-1 elements as a RE-SLICE of the argument (same backing array, other length)
//	grow   an array -> append(argument, 7) (same backing array when there is room)
//	mapset an object -> the same map with member "zz" = 7 stored
//
// every other element is handed back as unchanged.
func nativeMod(kind string) func(any) (any, bool) {
	return func(e any) (any, bool) {
		switch kind {
		case "trunc":
			switch t := e.(type) {
			case []any:
				if len(t) > 0 {
					return t[:len(t)-1], true
				}
			case gen.Array:
				if len(t) > 0 {
					return t[:len(t)-1], true
				}
			case *jl.IdxList:
				if len(t.V) > 0 {
					t.V = t.V[:len(t.V)-1]
					return t, true
				}
			default:
				rv := reflect.ValueOf(e)
				if rv.IsValid() && rv.Kind() == reflect.Slice && rv.Len() > 0 {
					return rv.Slice(0, rv.Len()-1).Interface(), true
				}
				if rv.IsValid() && rv.Kind() == reflect.Array && rv.Len() > 0 {
					out := make([]any, rv.Len()-1)
					for i := range out {
						out[i] = rv.Index(i).Interface()
					}
					return out, true
				}
			}
		case "grow":
			switch t := e.(type) {
			case []any:
				return append(t, int64(7)), true
			case gen.Array:
				return append(t, gen.Int(7)), true
			case *jl.IdxList:
				t.V = append(t.V, int64(7))
				return t, true
			default:
				rv := reflect.ValueOf(e)
				if rv.IsValid() && rv.Kind() == reflect.Slice && reflect.TypeOf(int64(7)).AssignableTo(rv.Type().Elem()) {
					return reflect.Append(rv, reflect.ValueOf(int64(7))).Interface(), true
				}
				if rv.IsValid() && rv.Kind() == reflect.Array {
					out := make([]any, rv.Len(), rv.Len()+1)
					for i := range out {
						out[i] = rv.Index(i).Interface()
					}
					return append(out, int64(7)), true
				}
			}
		case "mapset":
			switch t := e.(type) {
			case map[string]any:
				t["zz"] = int64(7)
				return t, true
			case gen.Object:
				t["zz"] = gen.Int(7)
				return t, true
			case *jl.OrdKeyed:
				t.SetValueForKey("zz", int64(7))
				return t, true
			default:
				rv := reflect.ValueOf(e)
				if rv.IsValid() && rv.Kind() == reflect.Map && rv.Type().Key().Kind() == reflect.String &&
					reflect.TypeOf(int64(7)).AssignableTo(rv.Type().Elem()) {
					rv.SetMapIndex(reflect.ValueOf("zz").Convert(rv.Type().Key()), reflect.ValueOf(int64(7)))
					return e, true
				}
			}
		}
		return e, false
	}
}

func modNative(kind string) jl.Node { return jl.Node{"m": kind} }

// ---------------------------------------------------------------- the cell family
// cell = one element of the table TLC enumerates from JsonPathStoreCells: operation x flavour x trailing kind x modifier class.
type cell struct {
	Op    string `json:"op"`
	Rep   string `json:"rep"`
	Trail string `json:"trail"`
	Mod   string `json:"mod"`
}

// trailing fragments of a kind for a container (arr: [1 2 1 3]-like list, obj: {a b c red}-like map)
func trailFrags(kind string, isArr bool, at []any) []jl.Frag {
	A := jl.Absent
	into := func(key string, last any) jl.Frag { return FFilterInto(key, append(append([]any{}, at...), last)...) }
	switch kind {
	case "child":
		return []jl.Frag{jl.FChild("a"), jl.FChild("red")}
	case "nth":
		return []jl.Frag{jl.FNth(0), jl.FNth(1), jl.FNth(-1)}
	case "unames":
		return []jl.Frag{jl.FUnion("red", "a", "none"), jl.FUnion("c")}
	case "uidx":
		return []jl.Frag{jl.FUnion(0, 2), jl.FUnion(-1, 1)}
	case "slice":
		return []jl.Frag{jl.FSlice(1, A, A), jl.FSlice(-2, A, A)}
	case "wild":
		return []jl.Frag{jl.FWild()}
	case "filter":
		return []jl.Frag{jl.FFilter("eqs", "", jl.Int(1)), jl.FFilter("gts", "", jl.Int(1))}
	case "rootfilter": // the `$` operand is an element / member of the very container the fragment is applied to
		if isArr {
			return []jl.Frag{into("", 0), into("", -1), into("", 2)}
		}
		return []jl.Frag{into("", "a"), into("", "c")}
	}
	return nil
}

type repDoc struct {
	doc   jl.Node
	pre   []jl.Frag // path to the container
	at    []any     // the same as a `$` operand prefix
	isArr bool
}

func repDocs() []repDoc {
	I := jl.Int
	list := func() jl.Node { return jl.Arr(I(1), I(2), I(1), I(3)) }
	obj := func() jl.Node { return jl.Obj("a", I(1), "b", I(2), "c", I(1), "red", I(4)) }
	return []repDoc{
		{list(), []jl.Frag{jl.FRoot()}, nil, true},
		{obj(), []jl.Frag{jl.FRoot()}, nil, false},
		{jl.Obj("keep", I(5), "list", list(), "m", obj()), []jl.Frag{jl.FRoot(), jl.FChild("list")}, []any{"list"}, true},
		{jl.Obj("keep", I(5), "list", list(), "m", obj()), []jl.Frag{jl.FRoot(), jl.FChild("m")}, []any{"m"}, false},
		{jl.Obj("p", jl.Obj("list", jl.Arr(I(1), I(5), I(2), I(1), I(9)), "conf", obj()), "q", I(9999)), []jl.Frag{jl.FRoot(), jl.FChild("p"), jl.FChild("list")}, []any{"p", "list"}, true},
		{jl.Obj("p", jl.Obj("list", list(), "conf", obj()), "q", I(9999)), []jl.Frag{jl.FRoot(), jl.FChild("p"), jl.FChild("conf")}, []any{"p", "conf"}, false},
		{jl.Arr(I(77), list(), obj()), []jl.Frag{jl.FRoot(), jl.FNth(1)}, []any{1}, true},
		{jl.Arr(I(77), list(), obj()), []jl.Frag{jl.FRoot(), jl.FNth(2)}, []any{2}, false},
	}
}

// rowsInto: lists of objects, inner root-referencing filter `$.rows[?(@.a == $.rows[i].a)].b` (Set / Del forms need a stepping tail)
func rowsInto() (jl.Node, [][]jl.Frag) {
	I := jl.Int
	d := jl.Obj("k", I(1), "rows", jl.Arr(jl.Obj("a", I(1), "b", I(20)), jl.Obj("a", I(2), "b", I(21)), jl.Obj("a", I(1), "b", I(22)), jl.Obj("a", I(3), "b", I(23))))
	ps := [][]jl.Frag{}
	for _, i := range []int{0, -1, 2} {
		f := FFilterInto("a", "rows", i, "a")
		ps = append(ps, []jl.Frag{jl.FRoot(), jl.FChild("rows"), f, jl.FChild("b")}, []jl.Frag{jl.FRoot(), jl.FChild("rows"), f})
	}
	return d, ps
}

func cellBehs(all []cell, emit func(b Beh)) {
	// one behaviour per (operation, trailing kind, modifier class) cell group, replayed in every representation of the group
	// (simple, gen and keyed are replayed for every behaviour anyway)
	reps := map[cell][]string{}
	cells := []cell{}
	for _, c := range all {
		k := cell{Op: c.Op, Trail: c.Trail, Mod: c.Mod}
		if _, ok := reps[k]; !ok {
			cells = append(cells, k)
			reps[k] = []string{}
		}
		if c.Rep != "gen" && c.Rep != "keyed" && c.Rep != "simple" {
			reps[k] = append(reps[k], c.Rep)
		}
	}
	sort.Slice(cells, func(i, j int) bool {
		a, b := cells[i], cells[j]
		return a.Op+"/"+a.Trail+"/"+a.Mod < b.Op+"/"+b.Trail+"/"+b.Mod
	})
	for _, c := range cells {
		sort.Strings(reps[c])
		var mds []jl.Node
		switch c.Mod {
		case "const":
			mds = []jl.Node{modConst()}
		case "wrap":
			mds = []jl.Node{modWrap()}
		case "same":
			mds = []jl.Node{modSame()}
		case "trunc", "grow", "mapset":
			mds = []jl.Node{modNative(c.Mod)}
		}
		mk := func(path []jl.Frag) []Call {
			switch c.Op {
			case "Set", "SetOne":
				return []Call{{Op: c.Op, Path: path, V: jl.Int(99)}}
			case "Modify", "ModifyOne":
				out := []Call{}
				for _, md := range mds {
					out = append(out, Call{Op: c.Op, Path: path, Md: md})
				}
				return out
			}
			return []Call{{Op: c.Op, Path: path}}
		}
		fl := reps[c]
		for _, rd := range repDocs() {
			if c.Trail == "self" { // the modifier is applied to the container itself (re-slice / same map written back into the parent)
				if len(rd.pre) > 1 && (c.Op == "Modify" || c.Op == "ModifyOne") {
					for _, cl := range mk(rd.pre) {
						emit(Beh{Src: "cells", Fx: len(rd.pre), Init: rd.doc, Hist: []Call{cl}, Fl: fl})
					}
				}
				continue
			}
			for _, tf := range trailFrags(c.Trail, rd.isArr, rd.at) {
				path := append(append([]jl.Frag{}, rd.pre...), tf)
				for _, cl := range mk(path) {
					emit(Beh{Src: "cells", Fx: len(path), Init: rd.doc, Hist: []Call{cl}, Fl: fl})
				}
			}
		}
		if c.Trail == "rootfilter" {
			d, ps := rowsInto()
			for _, p := range ps {
				for _, cl := range mk(p) {
					emit(Beh{Src: "cells", Fx: len(p), Init: d, Hist: []Call{cl}, Fl: fl})
				}
			}
		}
	}
}
