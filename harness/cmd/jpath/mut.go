package main

// C13: path mutations. Behaviours {init, hist: [call...]} come from TLC (spec/JsonPathStore.tla, exhaustive
// one-step menu and -simulate behaviours of three steps), from the fragment matrix below and from a seeded
// random generator; mutexec replays each on simple and on gen data, projecting the document after every step.
// The trace (one line per step) is judged by spec/TraceJsonPathStore.tla.

import (
	"bufio"
	"encoding/json"
	"flag"
	"fmt"
	"math/rand"
	"os"

	"github.com/ohler55/ojg/gen"
	"github.com/ohler55/ojg/jp"

	jl "verif/harness/jplib"
)

type Call struct {
	Op   string    `json:"op"`
	Path []jl.Frag `json:"path"`
	V    jl.Node   `json:"v,omitempty"`
	Md   jl.Node   `json:"md,omitempty"` // {"m": "const"|"wrap"|"same", "v": node}
	Fx   int       `json:"fx,omitempty"` // generator hint: index of the fragment under test in this call's path
}

type Beh struct {
	ID   int      `json:"id"`
	Src  string   `json:"src"`
	Fx   int      `json:"fx"`
	Init jl.Node  `json:"init"`
	Hist []Call   `json:"hist"`
	Fl   []string `json:"fl,omitempty"` // further flavours to replay (mut2.go), besides simple / gen / keyed
}

type stepObs struct {
	As     []string `json:"as"`
	Before jl.Node  `json:"before"`
	R      string   `json:"r"` // ok err panic
	After  jl.Node  `json:"after"`
	Msg    string   `json:"msg"`
}

type stepLine struct {
	B   int       `json:"b"`
	K   int       `json:"k"`
	Src string    `json:"src"`
	Fx  int       `json:"fx"`
	M   Call      `json:"m"`
	PS  string    `json:"ps"`
	Fl  []string  `json:"fl,omitempty"`
	O   []stepObs `json:"o"`
}

var allOps = []string{"Set", "SetOne", "Del", "DelOne", "Remove", "RemoveOne", "Modify", "ModifyOne"}

func modConst() jl.Node { return jl.Node{"m": "const", "v": jl.Int(99)} }
func modWrap() jl.Node  { return jl.Node{"m": "wrap"} }
func modSame() jl.Node  { return jl.Node{"m": "same"} }

// calls builds the calls of one path for the given operations (every argument of the small menus).
func calls(path []jl.Frag, ops []string, rich bool) []Call {
	out := []Call{}
	for _, op := range ops {
		switch op {
		case "Set", "SetOne":
			out = append(out, Call{Op: op, Path: path, V: jl.Int(99)})
			if rich {
				out = append(out, Call{Op: op, Path: path, V: jl.Arr(jl.Int(98))})
			}
		case "Modify", "ModifyOne":
			out = append(out, Call{Op: op, Path: path, Md: modConst()})
			if rich {
				out = append(out, Call{Op: op, Path: path, Md: modWrap()}, Call{Op: op, Path: path, Md: modSame()})
			}
		default:
			out = append(out, Call{Op: op, Path: path})
		}
	}
	return out
}

func mutMatrix(args []string) {
	fs := flag.NewFlagSet("mutmatrix", flag.ExitOnError)
	full := fs.Bool("full", false, "thorough parameter sets")
	cellsFile := fs.String("cells", "", "cell table emitted by TLC from JsonPathStoreCells (ndjson): the representation / modifier-class family of mut2.go")
	fs.Parse(args)
	out := bufio.NewWriterSize(os.Stdout, 1<<20)
	defer out.Flush()
	id := 0
	emit := func(fx int, init jl.Node, c Call) {
		id++
		b, _ := json.Marshal(Beh{ID: id, Src: "matrix", Fx: fx, Init: init, Hist: []Call{c}})
		out.Write(b)
		out.WriteByte('\n')
	}
	if *cellsFile != "" {
		var cells []cell
		fh, err := os.Open(*cellsFile)
		if err != nil {
			panic(err)
		}
		sc := bufio.NewScanner(fh)
		for sc.Scan() {
			var c cell
			if err := json.Unmarshal(sc.Bytes(), &c); err != nil {
				panic(err)
			}
			cells = append(cells, c)
		}
		fh.Close()
		cellBehs(cells, func(b Beh) {
			id++
			b.ID = id
			bb, _ := json.Marshal(b)
			out.Write(bb)
			out.WriteByte('\n')
		})
		return
	}
	A := jl.Absent
	bounds := []int{-5, -1, 0, 1, 2, 5, A}
	steps := []int{-2, -1, 0, 1, 2, A}
	lens := []int{0, 1, 4}
	if *full {
		bounds = []int{-6, -5, -4, -3, -2, -1, 0, 1, 2, 3, 4, 5, 6, A}
		steps = []int{-3, -2, -1, 0, 1, 2, 3, A}
		lens = []int{0, 1, 2, 3, 4, 5}
	}
	lastOps := []string{"Remove", "RemoveOne", "Modify", "ModifyOne"}
	innerOps := []string{"Set", "Del", "Remove", "Modify", "SetOne", "RemoveOne"}
	followers := []follower{{jl.FChild("a"), "obj"}, {jl.FNth(0), "arr"}}
	v := 0
	place := func(focus jl.Frag, ct cont, lastOps, innerOps []string, rich bool) {
		v++
		c := &ctr{n: 100}
		d := mkCont(ct, "mixed", c)
		if focus["f"] == "slice" {
			d = mkCont(ct, "scalar", c)
		}
		for _, cl := range calls([]jl.Frag{jl.FRoot(), focus}, lastOps, rich) {
			emit(2, d, cl)
		}
		if v%2 == 0 {
			for _, cl := range calls([]jl.Frag{jl.FRoot(), jl.FChild("p"), focus}, lastOps, false) {
				emit(3, jl.Obj("p", d, "q", jl.Int(9999)), cl)
			}
		} else {
			for _, cl := range calls([]jl.Frag{jl.FRoot(), jl.FNth(1), focus}, lastOps, false) {
				emit(3, jl.Arr(jl.Int(77), d), cl)
			}
		}
		for _, fo := range followers {
			d := mkCont(ct, fo.shape, c)
			for _, cl := range calls([]jl.Frag{jl.FRoot(), focus, fo.f}, innerOps, false) {
				emit(2, d, cl)
			}
		}
	}
	conts := []cont{}
	for _, n := range lens {
		conts = append(conts, cont{"arr", n})
	}
	all := append(append([]cont{}, conts...), cont{"obj", 0}, cont{"obj", 3}, cont{"scalar", 0}, cont{"null", 0})
	for _, s := range bounds {
		for _, e := range bounds {
			for _, st := range steps {
				for _, ct := range conts {
					place(jl.FSlice(s, e, st), ct, lastOps, innerOps, false)
				}
			}
		}
	}
	for _, ct := range all {
		place(jl.FSlice(1, A, A), ct, allOps, allOps, true)
		for i := -5; i <= 5; i++ {
			place(jl.FNth(i), ct, allOps, allOps, i == 0 || i == -1)
		}
		for _, k := range []string{"a", "b", "zz"} {
			place(jl.FChild(k), ct, allOps, allOps, k == "a")
		}
		place(jl.FWild(), ct, allOps, allOps, true)
		place(jl.FDesc(), ct, allOps, []string{"Set", "Del", "Remove", "Modify"}, false)
		for _, u := range [][]any{{0}, {0, 1}, {1, 0}, {-1, 0}, {0, 0}, {3, 1, 2}, {7, 0}, {"a"}, {"a", "b"}, {"b", "a"}, {"a", "a"}, {"zz", "a"}, {"a", 0}, {0, "a", 1}} {
			place(jl.FUnion(u...), ct, allOps, allOps, false)
		}
		for _, f := range []jl.Frag{jl.FFilter("gtk", "a", jl.Int(10)), jl.FFilter("exk", "a", jl.Null()), jl.FFilter("eqk", "b", jl.Str("s0")),
			jl.FFilter("gts", "", jl.Int(50)), jl.FFilter("gts", "", jl.Int(0)), jl.FFilter("eqs", "", jl.Int(51))} {
			place(f, ct, allOps, allOps, false)
		}
	}
	// an inner / last filter whose script reads the root ($.q), for every operation; unions with absent members at every position
	for _, q := range []jl.Node{jl.Int(11), jl.Int(99), jl.Str("s1")} {
		for _, key := range []string{"a", "b"} {
			for _, ct := range []cont{{"arr", 2}, {"arr", 4}, {"obj", 3}} {
				c := &ctr{n: 100}
				d := mkCont(ct, "obj", c)
				f := jl.FFilterRoot(key, "q")
				for _, cl := range calls([]jl.Frag{jl.FRoot(), jl.FChild("p"), f, jl.FChild("b")}, allOps, false) {
					emit(3, jl.Obj("p", d, "q", q), cl)
				}
				for _, cl := range calls([]jl.Frag{jl.FRoot(), jl.FChild("p"), f, jl.FChild("n")}, []string{"Set", "SetOne"}, false) {
					emit(3, jl.Obj("p", d, "q", q), cl)
				}
				for _, cl := range calls([]jl.Frag{jl.FRoot(), jl.FChild("p"), f}, []string{"Remove", "RemoveOne", "Modify", "ModifyOne"}, false) {
					emit(3, jl.Obj("p", d, "q", q), cl)
				}
			}
		}
	}
	for _, u := range [][]any{{-9, 0}, {0, 5}, {0, 9, 1}, {9, 0, 1}, {1, -9, 0}, {"a", "zz"}, {"a", "zz", "b"}, {"zz", "b", "a"}} {
		for _, ct := range all {
			place(jl.FUnion(u...), ct, allOps, allOps, false)
		}
	}
	// descent in the mutators: targets three and four container levels below arrays (array -> object -> object -> key,
	// array -> array -> object -> key, object -> array -> object -> array), no selected location inside another one
	{
		c := &ctr{n: 100}
		deep := []jl.Node{
			jl.Obj("x", jl.Arr(jl.Obj("y", jl.Obj("k", c.next())))),
			jl.Arr(jl.Arr(jl.Obj("k", c.next()))),
			jl.Obj("o", jl.Arr(jl.Obj("p", jl.Arr(jl.Obj("k", c.next()), jl.Obj("q", jl.Obj("k", c.next())))))),
			jl.Arr(jl.Obj("a", jl.Obj("b", jl.Obj("k", c.next()))), jl.Arr(jl.Arr(jl.Obj("k", c.next())))),
			jl.Obj("k", c.next(), "x", jl.Arr(jl.Arr(jl.Obj("y", jl.Arr(jl.Obj("k", c.next()), c.next()))))),
			jl.Obj("m", jl.Arr(jl.Obj("n", jl.Arr(jl.Arr(c.next(), jl.Obj("k", jl.Arr(c.next()))))))),
		}
		dpaths := [][]jl.Frag{
			{jl.FRoot(), jl.FDesc(), jl.FChild("k")}, {jl.FRoot(), jl.FDesc(), jl.FChild("y"), jl.FChild("k")}, {jl.FRoot(), jl.FChild("x"), jl.FDesc(), jl.FChild("k")},
			{jl.FRoot(), jl.FDesc(), jl.FNth(0), jl.FChild("k")}, {jl.FRoot(), jl.FDesc(), jl.FWild(), jl.FChild("k")}, {jl.FRoot(), jl.FDesc(), jl.FChild("k"), jl.FNth(0)},
			{jl.FRoot(), jl.FNth(0), jl.FDesc(), jl.FChild("k")}, {jl.FRoot(), jl.FDesc(), jl.FChild("q"), jl.FChild("k")}, {jl.FRoot(), jl.FDesc(), jl.FUnion("k", "zz")},
		}
		for _, d := range deep {
			for _, p := range dpaths {
				for _, cl := range calls(p, []string{"Set", "SetOne", "Del", "DelOne", "Modify", "ModifyOne", "Remove", "RemoveOne"}, false) {
					emit(0, d, cl)
				}
			}
		}
	}
	// the *One forms behind a fragment that selects several candidates of which the first one or two lack the rest of the path
	{
		mk := func(k int, objCont bool) jl.Node {
			c := &ctr{n: 100}
			els := []jl.Node{}
			for j := 0; j < 4; j++ {
				if j < k {
					els = append(els, jl.Obj("x", jl.Int(1), "w", c.next()))
				} else {
					els = append(els, jl.Obj("x", jl.Int(1), "w", c.next(), "y", c.next()))
				}
			}
			if objCont {
				return jl.Obj("a", els[0], "b", els[1], "c", els[2], "d", els[3])
			}
			return jl.Arr(els...)
		}
		multi := []jl.Frag{jl.FFilter("eqk", "x", jl.Int(1)), jl.FWild(), jl.FUnion(0, 1, 2), jl.FUnion("a", "b", "c"), jl.FSlice(0, 3, A), jl.FDesc(), jl.FFilter("exk", "w", jl.Null())}
		for _, k := range []int{1, 2} {
			for _, oc := range []bool{false, true} {
				for _, mf := range multi {
					for _, cl := range calls([]jl.Frag{jl.FRoot(), mf, jl.FChild("y")}, allOps, false) {
						emit(2, mk(k, oc), cl)
					}
					for _, cl := range calls([]jl.Frag{jl.FRoot(), jl.FChild("p"), mf, jl.FChild("y")}, []string{"SetOne", "DelOne", "ModifyOne", "RemoveOne"}, false) {
						emit(3, jl.Obj("p", mk(k, oc), "q", jl.Int(9999)), cl)
					}
				}
			}
		}
	}
	// a descent directly behind a multi-selecting fragment (see rowsDoc in main.go): the match lies below a LATER selected element only
	for _, oc := range []bool{false, true} {
		for _, mf := range multiBeforeDescent() {
			for ti, tail := range afterDescent() {
				if ti == 3 || ti == 4 {
					continue // a wildcard behind the descent selects locations inside one another: outside the store's definition
				}
				p := append([]jl.Frag{jl.FRoot(), jl.FChild("rows"), mf, jl.FDesc()}, tail...)
				for _, cl := range calls(p, allOps, false) {
					emit(4, rowsDoc(oc), cl)
				}
			}
		}
	}
	// scripts on the element itself (true on null / scalar / container elements) as trailing and as inner filter, all operations
	for _, f := range []jl.Frag{
		jl.FFilter("eqs", "", jl.Null()), jl.FFilter("nes", "", jl.Null()), jl.FFilter("eqs", "", jl.Int(3)), jl.FFilter("nes", "", jl.Int(3)),
		jl.FFilter("gts", "", jl.Int(1)), jl.FFilter("nek", "x", jl.Int(1)), jl.FFilter("nek", "x", jl.Int(2)), jl.FFilter("eqnothing", "x", jl.Null()),
	} {
		for _, ct := range []cont{{"arr", 1}, {"arr", 3}, {"arr", 5}, {"obj", 1}, {"obj", 4}} {
			c := &ctr{n: 100}
			d := mkCont(ct, "scal", c)
			for _, cl := range calls([]jl.Frag{jl.FRoot(), f}, allOps, false) {
				emit(2, d, cl)
			}
			for _, cl := range calls([]jl.Frag{jl.FRoot(), jl.FChild("p"), f}, []string{"Remove", "RemoveOne", "Modify", "ModifyOne"}, true) {
				emit(3, jl.Obj("p", d, "q", jl.Int(9999)), cl)
			}
			for _, cl := range calls([]jl.Frag{jl.FRoot(), f, jl.FChild("w")}, allOps, false) {
				emit(2, d, cl)
			}
			for _, cl := range calls([]jl.Frag{jl.FRoot(), jl.FNth(0), f, jl.FChild("x")}, allOps, false) {
				emit(3, jl.Arr(d, jl.Int(77)), cl)
			}
		}
	}
	// Modify / ModifyOne with a modifier whose result is of a kind foreign to the data (plain Go values and nil on gen data, a gen.Node on
	// simple data), through every kind of last fragment and container arm
	{
		c := &ctr{n: 100}
		fdocs := []jl.Node{
			jl.Obj("a", c.next(), "b", jl.Arr(c.next(), c.next()), "c", jl.Obj("a", c.next())),
			jl.Arr(c.next(), jl.Obj("a", c.next(), "b", c.next()), jl.Arr(c.next(), c.next(), c.next())),
		}
		fpaths := [][]jl.Frag{
			{jl.FRoot(), jl.FChild("a")}, {jl.FRoot(), jl.FNth(0)}, {jl.FRoot(), jl.FNth(-1)}, {jl.FRoot(), jl.FWild()}, {jl.FRoot(), jl.FUnion("a", "c")}, {jl.FRoot(), jl.FUnion(0, 1)},
			{jl.FRoot(), jl.FSlice(0, 1, A)}, {jl.FRoot(), jl.FFilter("gts", "", jl.Int(0))}, {jl.FRoot(), jl.FChild("b"), jl.FNth(1)}, {jl.FRoot(), jl.FChild("b"), jl.FWild()},
			{jl.FRoot(), jl.FNth(1), jl.FChild("a")}, {jl.FRoot(), jl.FNth(1), jl.FWild()}, {jl.FRoot(), jl.FNth(2), jl.FSlice(1, A, A)}, {jl.FRoot(), jl.FChild("c"), jl.FUnion("a")},
			{jl.FRoot(), jl.FWild(), jl.FNth(0)}, {jl.FRoot(), jl.FWild(), jl.FChild("a")}, {jl.FRoot(), jl.FDesc(), jl.FChild("a")}, {jl.FRoot()},
		}
		for _, d := range fdocs {
			for _, p := range fpaths {
				for _, md := range modForeign() {
					for _, op := range []string{"Modify", "ModifyOne"} {
						emit(0, d, Call{Op: op, Path: p, Md: md})
					}
				}
			}
		}
	}
	// ordering across int and float in an inner and a trailing filter (shared menu, see cmpFilters in main.go)
	for fi, f := range cmpFilters() {
		if fi%3 == 2 || fi%2 == 1 {
			continue // a third of the menu is enough here: `@.a <cmp> c` and `c <cmp> @.a` alternately
		}
		c := &ctr{n: 100}
		d := mkCont(cont{"arr", 7}, "num", c)
		for _, cl := range calls([]jl.Frag{jl.FRoot(), f}, []string{"Remove", "Modify", "RemoveOne"}, false) {
			emit(2, d, cl)
		}
		for _, cl := range calls([]jl.Frag{jl.FRoot(), f, jl.FChild("b")}, []string{"Set", "Del", "Modify", "DelOne"}, false) {
			emit(2, d, cl)
		}
	}
	// creation along child/index paths, and requests that cannot be served
	c := &ctr{n: 100}
	docs := []jl.Node{jl.Obj(), jl.Arr(), jl.Obj("a", jl.Obj("b", jl.Int(1))), jl.Obj("a", jl.Arr(c.next(), c.next())), jl.Obj("a", jl.Int(5)),
		jl.Arr(jl.Obj("a", jl.Int(1)), jl.Int(2), jl.Arr(c.next())), jl.Null(), jl.Int(3)}
	paths := [][]jl.Frag{
		{jl.FRoot(), jl.FChild("x")}, {jl.FRoot(), jl.FChild("a"), jl.FChild("b")}, {jl.FRoot(), jl.FChild("x"), jl.FChild("y")},
		{jl.FRoot(), jl.FChild("x"), jl.FNth(2)}, {jl.FRoot(), jl.FChild("x"), jl.FNth(-1)}, {jl.FRoot(), jl.FChild("a"), jl.FNth(5)},
		{jl.FRoot(), jl.FChild("a"), jl.FNth(1)}, {jl.FRoot(), jl.FChild("a"), jl.FChild("b"), jl.FChild("c")},
		{jl.FRoot(), jl.FChild("x"), jl.FWild()}, {jl.FRoot(), jl.FChild("x"), jl.FNth(1), jl.FChild("y")}, {jl.FRoot(), jl.FNth(0), jl.FChild("z")},
		{jl.FRoot(), jl.FNth(3)}, {jl.FRoot(), jl.FNth(1), jl.FChild("a")}, {jl.FRoot()}, {jl.FChild("x")}, {jl.FAt(), jl.FChild("a")},
		{jl.FRoot(), jl.FWild(), jl.FChild("n")}, {jl.FRoot(), jl.FChild("x"), jl.FUnion("p", "q")}, {jl.FRoot(), jl.FUnion("x", "y"), jl.FChild("z")},
		{}, {jl.FRoot(), jl.FChild("a"), jl.FDesc()}, {jl.FRoot(), jl.FChild("a"), jl.FSlice(0, 1, A)}, {jl.FRoot(), jl.FChild("a"), jl.FFilter("gts", "", jl.Int(0))},
	}
	for _, d := range docs {
		for _, p := range paths {
			for _, cl := range calls(p, allOps, true) {
				emit(0, d, cl)
			}
		}
	}
}

func mutRandom(args []string) {
	fs := flag.NewFlagSet("mutrandom", flag.ExitOnError)
	n := fs.Int("n", 1000, "number of behaviours")
	fs.Parse(args)
	out := bufio.NewWriterSize(os.Stdout, 1<<20)
	defer out.Flush()
	r := rand.New(rand.NewSource(seed()*104729 + 7))
	for id := 1; id <= *n; id++ {
		g := &rgen{r: r, c: ctr{n: 0}}
		data := g.tree(2 + r.Intn(2))
		b := Beh{ID: id, Src: "random", Init: data}
		for k := 1 + r.Intn(3); k > 0; k-- {
			path := []jl.Frag{jl.FRoot()}
			cur := data
			for i := 1 + r.Intn(3); i > 0; i-- {
				f, next := g.frag(false, cur)
				path = append(path, f)
				cur = next
			}
			hint := 0
			if last := path[len(path)-1]; last["f"] == "union" && !hasSlice(path) {
				// generator hint for the locus: the fragment an operation is applied with is the last one
				hint = len(path)
			}
			op := allOps[r.Intn(len(allOps))]
			cs := calls(path, []string{op}, true)
			cl := cs[r.Intn(len(cs))]
			cl.Fx = hint
			b.Hist = append(b.Hist, cl)
		}
		bb, _ := json.Marshal(b)
		out.Write(bb)
		out.WriteByte('\n')
	}
}

func hasSlice(path []jl.Frag) bool {
	for _, f := range path {
		if f["f"] == "slice" {
			return true
		}
	}
	return false
}

// ---------------------------------------------------------------- replay
func applyMod(md jl.Node) func(any) (any, bool) {
	switch md["m"] {
	case "foreign": // a result whose Go kind is foreign to the data (see modForeign); never converted to the data's flavour
		var v any
		switch md["k"] {
		case "int":
			v = int64(7)
		case "str":
			v = "fv"
		case "arr":
			v = []any{int64(7)}
		case "map":
			v = map[string]any{"x": int64(7)}
		case "gen":
			v = gen.Int(7)
		}
		return func(any) (any, bool) { return v, true }
	case "const":
		v, _ := jl.Build("simple", jl.Norm(md["v"]))
		return func(any) (any, bool) { return v, true }
	case "wrap":
		return func(e any) (any, bool) { return []any{e}, true }
	}
	return func(e any) (any, bool) { return e, false }
}

// apply runs one call on data (simple or gen) and returns the root afterwards.
func apply(c Call, data any, flavour string) (root any, r string, msg string) {
	root = data
	r = "ok"
	defer func() {
		if rec := recover(); rec != nil {
			r, msg = "panic", fmt.Sprintf("%T: %v", rec, rec)
			if len(msg) > 160 {
				msg = msg[:160]
			}
		}
	}()
	x := exprOf(c.Path)
	var err error
	var val any
	if c.V != nil {
		val, _ = jl.Build("simple", jl.Norm(c.V)) // Set on gen data takes simple values too (alt.Generify inside)
	}
	switch c.Op {
	case "Set":
		err = x.Set(data, val)
	case "SetOne":
		err = x.SetOne(data, val)
	case "Del":
		err = x.Del(data)
	case "DelOne":
		err = x.DelOne(data)
	case "Remove":
		root, err = x.Remove(data)
	case "RemoveOne":
		root, err = x.RemoveOne(data)
	case "Modify":
		root, err = x.Modify(data, modFor(c.Md, flavour))
	case "ModifyOne":
		root, err = x.ModifyOne(data, modFor(c.Md, flavour))
	}
	if err != nil {
		r, msg = "err", err.Error()
		if len(msg) > 160 {
			msg = msg[:160]
		}
		if root == nil {
			root = data
		}
	}
	return
}

var noGenMod = false

func modFor(md jl.Node, flavour string) func(any) (any, bool) {
	if md["m"] == "foreign" {
		return applyMod(md)
	}
	if k, _ := md["m"].(string); k == "trunc" || k == "grow" || k == "mapset" {
		return nativeMod(k)
	}
	return genMod(applyMod(md), flavour)
}

// modForeign: the modifier results of a foreign kind and the values they denote.
func modForeign() []jl.Node {
	return []jl.Node{
		{"m": "foreign", "k": "int", "v": jl.Int(7)}, {"m": "foreign", "k": "str", "v": jl.Str("fv")}, {"m": "foreign", "k": "arr", "v": jl.Arr(jl.Int(7))},
		{"m": "foreign", "k": "map", "v": jl.Obj("x", jl.Int(7))}, {"m": "foreign", "k": "nil", "v": jl.Null()}, {"m": "foreign", "k": "gen", "v": jl.Int(7)},
	}
}

// genMod makes the modifier return gen nodes on gen data.
func genMod(f func(any) (any, bool), flavour string) func(any) (any, bool) {
	if flavour != "gen" || noGenMod {
		return f
	}
	return func(e any) (any, bool) {
		v, ch := f(e)
		if !ch {
			return v, ch
		}
		g, _ := jl.Build("gen", jl.Project(v))
		return g, true
	}
}

func runBeh(b *Beh) []stepLine {
	lines := []stepLine{}
	// the statement names simple and gen data; the ordered user Keyed/Indexed collections are replayed too
	// (VERIF_MUT_KEYED=0 turns that off) because the mutators have separate Keyed/Indexed branches
	flavours := []string{"simple", "gen"}
	if os.Getenv("VERIF_MUT_KEYED") != "0" {
		flavours = append(flavours, "keyed")
	}
	flavours = append(flavours, b.Fl...)
	datas := make([]any, len(flavours))
	for i, fl := range flavours {
		datas[i] = buildFl(fl, b.Init)
	}
	maxLen := 8
	for k, c := range b.Hist {
		for _, f := range c.Path {
			if f["f"] == "slice" {
				f["pr"] = jl.Probe(f, maxLen)
			}
		}
		ps := ""
		func() {
			defer func() { recover() }()
			ps = exprOf(c.Path).String()
		}()
		ln := stepLine{B: b.ID, K: k + 1, Src: b.Src, Fx: b.Fx, M: c, PS: ps, Fl: b.Fl}
		if c.Fx > 0 {
			ln.Fx = c.Fx
		}
		for i, fl := range flavours {
			before := jl.Project(datas[i])
			root, r, msg := apply(c, datas[i], fl)
			datas[i] = root
			if c.V != nil && (jl.IsArr(c.V) || jl.IsObj(c.V)) {
				// Set stores the one container value at every selected location; rebuild the document so that this
				// sharing (ordinary Go aliasing, not a property of the path code) does not leak into the next call
				datas[i] = buildFl(fl, jl.Project(root))
			}
			o := stepObs{As: []string{fl}, Before: before, R: r, After: jl.Project(root), Msg: msg}
			merged := false
			for j := range ln.O {
				if ln.O[j].R == o.R && jsonEq(ln.O[j].Before, o.Before) && jsonEq(ln.O[j].After, o.After) {
					ln.O[j].As = append(ln.O[j].As, fl)
					merged = true
				}
			}
			if !merged {
				ln.O = append(ln.O, o)
			}
		}
		lines = append(lines, ln)
	}
	return lines
}

func jsonEq(a, b any) bool {
	x, _ := json.Marshal(a)
	y, _ := json.Marshal(b)
	return string(x) == string(y)
}

func mutExec(args []string) {
	parallel(os.Stdin, os.Stdout, func(line []byte) []byte {
		var b Beh
		if err := json.Unmarshal(line, &b); err != nil {
			panic(err)
		}
		b.Init = jl.Norm(b.Init)
		for i := range b.Hist {
			if b.Hist[i].V != nil {
				b.Hist[i].V = jl.Norm(b.Hist[i].V)
			}
		}
		var out []byte
		for i, ln := range runBeh(&b) {
			bb, err := json.Marshal(ln)
			if err != nil {
				panic(err)
			}
			if i > 0 {
				out = append(out, '\n')
			}
			out = append(out, bb...)
		}
		return out
	})
}

var _ = jp.X
