package main

func mutMatrix(args []string) {}
func mutRandom(args []string) {}
func mutExec(args []string)   {}
