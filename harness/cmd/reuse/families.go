package main

// The call menus of C07.  Every kind is a call with FIXED arguments and options (every public option
// field is set explicitly by the kind, so "the call's arguments and options" are exactly the kind).
// The menus are chosen so that every piece of per-instance state named in the property's anchors is
// touched by some kind (stack, starts, maps/Reuse, tmp, num.Conv, ForceFloat, cb, resultChan, plus,
// lastKey, quoteDelim, writer buf/w/strict/function pointers, pool identity).

import (
	"bytes"
	"errors"
	"io"
	"regexp"
	"strconv"
	"strings"

	"verif/harness/absval"

	"github.com/ohler55/ojg"
	"github.com/ohler55/ojg/gen"
	"github.com/ohler55/ojg/oj"
	"github.com/ohler55/ojg/pretty"
	"github.com/ohler55/ojg/sen"
)

// ---------------------------------------------------------------- documents
const (
	dValid    = `{"a":[1,"x",true,null],"b":{"c":2.5}}`
	dBadStr   = `["ab\qc"]`
	dBadNum   = `[1,-x]`
	dBadLit   = `{"a":trux}`
	dBadKey   = `{"a":1,]`
	dBadNest  = `{"a":[{"b":[1,{"c":[}]}]}`
	dTrunc    = `{"a":[1,{"b":"x`
	dEsc      = `["a\tbé\"c",{"k\n":"v\\"}]`
	dMulti    = `{"a":1} [2,{"b":3}] "s" 4`
	dNums     = `[1.5,12345678901234567890123,0.1234567890123456789012345,1e3,-0,7,1e400,123456789012345678901234567890,0.1234567890123456789012]`
	dReuse    = `{"a":{"b":{"c":1}},"d":{"e":2},"f":[{"g":3}]}`
	dUnm      = `{"x":1,"y":[2,3.5],"z":"s"}`
	dTopNum   = `12.5e1`
	dDeep     = `[[[[[[[[[[[[[[[[[[[[[[[[[[[[[[[[[[[[[[[[{"k":[1]}]]]]]]]]]]]]]]]]]]]]]]]]]]]]]]]]]]]]]]]]`
	dSenPlusP = `["a" +`
	dSenPlusT = `"a" +`
	dSenPlusO = `{a:"x" +`
	dSenPlus  = `["a" + "b" {k:"x" + "y"}]`
	dSenCmt   = `[1 /* abc`
	dSenFunc  = `[ISODate("2021-06-28T10:11:12Z") foo(1 2) bar()]`
	dSenSq    = `['a"b' {k:'v' "q":'w'}]`
	dSenBare  = `{a:b c:[d e null true] f:1.5}`
	dSenStr   = `"1abc"`
	dSenLine  = "[1 // c\n 2]"
)

// Documents for the position bookkeeping of the reader variants (the read buffer of every front-end is
// 4096 bytes) and for Reuse=true with different member names at the same nesting positions.
var (
	dBig       = "[\n\"" + strings.Repeat("a", 4200) + "\",\n{\"k\":\"" + strings.Repeat("b", 200) + "\"},\n7]" // valid, 2 buffers, 4 lines
	dLateBad1  = "[\"" + strings.Repeat("a", 4200) + "\", 1, }"                                                 // rejected behind the first buffer, line 1
	dLateBad3  = "[\"" + strings.Repeat("a", 4200) + "\",\n1,\n  }"                                             // rejected behind the first buffer, line 3
	dLine1Bad  = `[1, }`                                                                                        // rejected on line 1
	dLine3Bad  = "[1,\n 2,\n   }]"                                                                              // rejected on line 3
	dReuse2    = `{"x":[1.5],"b":{"y":"z"},"d":{"r":{"s":2}},"f":[{"h":[]}]}`                                   // other members than dReuse at the same positions
	dReuseMany = `{"a":1,"b":{"c":2}} {"x":{"y":1},"b":{"z":3}} {"b":{}}`
)

var atPos = regexp.MustCompile(` at (\d+):(\d+)$`)

func parseRes(v any, err error, sink *[]any) map[string]any {
	res := map[string]any{"c": "ok", "l": 0, "col": 0}
	if err != nil {
		var pe *oj.ParseError
		var ge *gen.ParseError
		switch {
		case errors.As(err, &pe):
			res["c"], res["l"], res["col"] = "perr", pe.Line, pe.Column
		case errors.As(err, &ge):
			res["c"], res["l"], res["col"] = "perr", ge.Line, ge.Column
		default:
			res["c"] = "err"
			if m := atPos.FindStringSubmatch(err.Error()); m != nil { // position is compared, the text is not
				res["l"], _ = strconv.Atoi(m[1])
				res["col"], _ = strconv.Atoi(m[2])
			}
		}
	}
	res["v"] = held(v, err, sink)
	return res
}

// held is the abstract value of everything the caller holds after the call.
func held(v any, err error, sink *[]any) any {
	var ret any = none
	if err == nil {
		ret = absval.Atoms(v)
	}
	if sink == nil {
		return ret
	}
	got := make([]any, len(*sink))
	for i, x := range *sink {
		got[i] = absval.Atoms(x)
	}
	return map[string]any{"t": "multi", "ret": ret, "got": got}
}

type failReader struct {
	data []byte
	done bool
}

func (r *failReader) Read(p []byte) (int, error) {
	if !r.done {
		r.done = true
		return copy(p, r.data), nil
	}
	return 0, errors.New("boom")
}

type chunkReader struct {
	b []byte
	n int
}

func (r *chunkReader) Read(p []byte) (int, error) {
	if len(r.b) == 0 {
		return 0, io.EOF
	}
	n := r.n
	if n > len(r.b) {
		n = len(r.b)
	}
	if n > len(p) {
		n = len(p)
	}
	copy(p, r.b[:n])
	r.b = r.b[n:]
	return n, nil
}

// parserOps abstracts oj.Parser / gen.Parser / sen.Parser and the pooled functions.
type parserOps struct {
	prefix    string
	parse     func(inst any, b []byte, args ...any) (any, error)
	read      func(inst any, r io.Reader, args ...any) (any, error)
	setReuse  func(inst any, on bool)
	unmarshal func(inst any, b []byte, vp any) error
	genCB     bool // callbacks take gen.Node
	conv      bool // accepts ojg.NumConvMethod
}

func (po *parserOps) cb(sink *[]any, panicAt int) any {
	if po.genCB {
		return func(n gen.Node) bool {
			*sink = append(*sink, n)
			if panicAt > 0 && len(*sink) == panicAt {
				panic("callback boom")
			}
			return true
		}
	}
	return func(n any) bool {
		*sink = append(*sink, n)
		if panicAt > 0 && len(*sink) == panicAt {
			panic("callback boom")
		}
		return true
	}
}

func (po *parserOps) cbPlain(sink *[]any) any {
	if po.genCB {
		return func(n gen.Node) { *sink = append(*sink, n) }
	}
	return func(n any) { *sink = append(*sink, n) }
}

func scribbler(b []byte) func() {
	return func() {
		for i := range b {
			b[i] = 'X'
		}
	}
}

// doc: Parse(doc, args...) with Reuse as given.
func (po *parserOps) doc(name, doc string, reuse bool, args ...any) Kind {
	ex := ""
	if reuse {
		ex = "reuse"
	}
	return Kind{Name: name, API: po.prefix + "Parse", Exempt: ex, Run: func(inst any) Out {
		if po.setReuse != nil {
			po.setReuse(inst, reuse)
		}
		b := []byte(doc)
		v, err := po.parse(inst, b, args...)
		return Out{Err: err, Res: parseRes(v, err, nil), View: func() any { return held(v, err, nil) }, Scribble: scribbler(b)}
	}}
}

func (po *parserOps) multi(name, doc, how string, panicAt int) Kind {
	return po.multiX(name, doc, how, panicAt, false, false)
}

// multiX: multi-document call; reuse sets Reuse=true (the delivered maps are then recycled from one document
// to the next, as documented - the same happens on a fresh instance); viaReader goes through ParseReader.
func (po *parserOps) multiX(name, doc, how string, panicAt int, reuse, viaReader bool) Kind {
	api, ex := "Parse", ""
	if viaReader {
		api = "ParseReader"
	}
	if reuse {
		ex = "reuse"
	}
	return Kind{Name: name, API: po.prefix + api, Exempt: ex, Run: func(inst any) Out {
		if po.setReuse != nil {
			po.setReuse(inst, reuse)
		}
		b := []byte(doc)
		sink := []any{}
		var v any
		var err error
		call := func(cb any) (any, error) {
			if viaReader {
				return po.read(inst, bytes.NewReader(b), cb)
			}
			return po.parse(inst, b, cb)
		}
		switch how {
		case "cbbool":
			v, err = call(po.cb(&sink, panicAt))
		case "cb":
			v, err = call(po.cbPlain(&sink))
		case "chan":
			if po.genCB {
				ch := make(chan gen.Node, 64)
				v, err = call(ch)
				close(ch)
				for x := range ch {
					sink = append(sink, x)
				}
			} else {
				ch := make(chan any, 64)
				v, err = call(ch)
				close(ch)
				for x := range ch {
					sink = append(sink, x)
				}
			}
		}
		return Out{Err: err, Res: parseRes(v, err, &sink), View: func() any { return held(v, err, &sink) }, Scribble: scribbler(b)}
	}}
}

func (po *parserOps) reader(name string, mk func(b []byte) io.Reader, doc string, args ...any) Kind {
	return po.readerX(name, mk, doc, false, args...)
}

func (po *parserOps) readerX(name string, mk func(b []byte) io.Reader, doc string, reuse bool, args ...any) Kind {
	ex := ""
	if reuse {
		ex = "reuse"
	}
	return Kind{Name: name, API: po.prefix + "ParseReader", Exempt: ex, Run: func(inst any) Out {
		if po.setReuse != nil {
			po.setReuse(inst, reuse)
		}
		b := []byte(doc)
		v, err := po.read(inst, mk(b), args...)
		return Out{Err: err, Res: parseRes(v, err, nil), View: func() any { return held(v, err, nil) }, Scribble: scribbler(b)}
	}}
}

func (po *parserOps) unm(name, doc string) Kind { return po.unmX(name, doc, false) }

// unmX: badTarget recomposes into an *int (the parse succeeds, the recompose step fails).
func (po *parserOps) unmX(name, doc string, badTarget bool) Kind {
	return Kind{Name: name, API: po.prefix + "Unmarshal", Run: func(inst any) Out {
		if po.setReuse != nil {
			po.setReuse(inst, false)
		}
		b := []byte(doc)
		var target any
		var err error
		if badTarget {
			var n int
			err = po.unmarshal(inst, b, &n)
			target = n
		} else {
			err = po.unmarshal(inst, b, &target)
		}
		return Out{Err: err, Res: parseRes(target, err, nil), View: func() any { return held(target, err, nil) }, Scribble: scribbler(b)}
	}}
}

// tempKinds: for every option or flag an entry point sets only for the duration of the call (ForceFloat in
// Unmarshal, NumConv, callback, channel), a FAILING call of that entry point; followed in the histories by
// plain calls whose results are type-sensitive (int64 vs float64 vs json.Number are different abstract values).
func (po *parserOps) tempKinds() (first, rest []Kind) {
	if po.unmarshal != nil {
		first = append(first, po.unm("unmarshal_bad", `{"x":1,"y":[2,}}`))
		rest = append(rest, po.unmX("unmarshal_badtarget", dUnm, true))
	}
	if po.conv {
		rest = append(rest, po.doc("conv_float_bad", `[1.5,12345678901234567890123,}`, false, ojg.NumConvFloat64),
			po.doc("conv_string_bad", `[1.5,12345678901234567890123,}`, false, ojg.NumConvString))
	}
	rest = append(rest, po.multi("multi_cb_bad", `{"a":1} [2,{"b":3}] }`, "cbbool", 0), po.multi("multi_chan_bad", `{"a":1} [2,}`, "chan", 0))
	return
}

// optionKinds: spec/ReuseOptions.tla lists, for the parsers, every per-call option argument of every entry point and
// the documents whose result depends on it; props/C07.py checks that these kinds exist in every parser family, and the
// history enumeration (all pairs over the whole menus) then contains every (call WITH the option, call WITHOUT it on
// a dependent document) pair.  Kind names: <entry>:<option> and <entry>:plain:<document>.
func (po *parserOps) optionKinds() []Kind {
	ks := []Kind{
		po.doc("Parse:plain:nums", dNums, false),
		po.reader("ParseReader:plain:nums", whole, dNums),
		po.doc("Parse:plain:multi", dMulti, false),
		po.reader("ParseReader:plain:multi", whole, dMulti),
		po.doc("Parse:plain:maps", dReuse2, false),
		po.reader("ParseReader:plain:maps", whole, dReuse2),
		po.multi("Parse:callback", dMulti, "cb", 0),
		po.multi("Parse:callback_bool", dMulti, "cbbool", 0),
		po.multi("Parse:channel", dMulti, "chan", 0),
		po.multiX("ParseReader:callback", dMulti, "cb", 0, false, true),
		po.multiX("ParseReader:callback_bool", dMulti, "cbbool", 0, false, true),
		po.multiX("ParseReader:channel", dMulti, "chan", 0, false, true),
	}
	if po.conv {
		ks = append(ks,
			po.doc("Parse:NumConvFloat64", dNums, false, ojg.NumConvFloat64),
			po.doc("Parse:NumConvString", dNums, false, ojg.NumConvString),
			po.doc("Parse:NumConvNone", dNums, false, ojg.NumConvNone),
			po.reader("ParseReader:NumConvFloat64", whole, dNums, ojg.NumConvFloat64),
			po.reader("ParseReader:NumConvString", whole, dNums, ojg.NumConvString),
			po.reader("ParseReader:NumConvNone", whole, dNums, ojg.NumConvNone))
	}
	if po.setReuse != nil {
		ks = append(ks, po.doc("Parse:Reuse", dReuse, true), po.readerX("ParseReader:Reuse", whole, dReuse, true))
	}
	return ks
}

// abortKinds: calls that are ABORTED (the reader returns a non-EOF error inside a container, inside a string, inside a
// number; the callback panics on the first / second document), through every reader / callback entry point.
func (po *parserOps) abortKinds() []Kind {
	return []Kind{
		po.reader("reader_fail_in_string", failer, `{"a":[1,"xy`),
		po.reader("reader_fail_in_number", failer, `{"a":[1,23`),
		po.reader("reader_fail_top_number", failer, `123`),
		po.multi("cb_panic_first", dMulti, "cbbool", 1),
		po.multiX("reader_cb_panic_first", dMulti, "cbbool", 1, false, true),
	}
}

// surrogateKinds: a document that FAILS right after a lone high-surrogate escape at decoded offset k, and a document
// with a lone low-surrogate escape at the same offset (k = 0, 3, 6), for every automaton that decodes strings.
func surrogateDocs() (names []string, docs []string) {
	for _, k := range []int{0, 3, 6} {
		pre := "abcdef"[:k]
		tail := ""
		if k == 3 {
			tail = "\x01\"]" // invalid byte after the high half; the others end with the input
		}
		names = append(names, "hi_fail"+strconv.Itoa(k), "lo"+strconv.Itoa(k), "hi_key_fail"+strconv.Itoa(k), "lo_key"+strconv.Itoa(k))
		docs = append(docs, `["`+pre+`\ud83d`+tail, `["`+pre+`\ude00"]`, `{"`+pre+`\ud83d`+tail, `{"`+pre+`\ude00":1}`)
	}
	return
}

func (po *parserOps) surrogateKinds() []Kind {
	names, docs := surrogateDocs()
	ks := []Kind{}
	for i := range names {
		ks = append(ks, po.doc(names[i], docs[i], false))
	}
	return append(ks, po.reader("reader_hi_fail3", whole, docs[4]), po.reader("reader_lo3", whole, docs[5]))
}

func whole(b []byte) io.Reader  { return bytes.NewReader(b) }
func by3(b []byte) io.Reader    { return &chunkReader{b: b, n: 3} }
func failer(b []byte) io.Reader { return &failReader{data: b} }

// readerKinds: the reader-based calls every parser family gets (position bookkeeping across buffers and calls).
func (po *parserOps) readerKinds() (first, rest []Kind) {
	first = []Kind{
		po.reader("reader_big_ok", whole, dBig),
		po.reader("reader_late_bad", whole, dLateBad1),
		po.reader("reader_bad_line1", whole, dLine1Bad),
		po.reader("reader_bad_line3", whole, dLine3Bad),
	}
	rest = []Kind{
		po.reader("reader_small_ok", whole, dValid),
		po.reader("reader_late_bad_line3", whole, dLateBad3),
		po.multiX("reader_cb_panic", dMulti, "cbbool", 2, false, true),
		po.doc("big_ok", dBig, false),
	}
	return
}

// The menus list the kinds that touch most per-instance state first: the quick tier enumerates all
// triples over the first 16 kinds (and all pairs over the whole menu), the thorough tier all quadruples over
// the first 16 (and all triples over the whole menu).
func (po *parserOps) jsonMenu() []Kind {
	rfirst, rrest := po.readerKinds()
	ks := []Kind{
		po.doc("valid", dValid, false),
		po.doc("bad_nested", dBadNest, false),
		po.doc("truncated", dTrunc, false),
		po.doc("bad_line3", dLine3Bad, false),
		po.doc("escapes", dEsc, false),
		po.multi("multi_cb", dMulti, "cbbool", 0),
		po.multi("cb_panic", dMulti, "cbbool", 2),
		po.doc("reuse_maps", dReuse, true),
		po.doc("reuse_maps2", dReuse2, true),
		po.doc("nums", dNums, false),
	}
	tfirst, trest := po.tempKinds()
	ks = append(ks, rfirst...)
	ks = append(ks,
		po.reader("reader_fail", failer, `{"a":[1,2,`),
		po.reader("reader_by3", by3, dEsc))
	ks = append(ks, tfirst...)
	ks = append(ks,
		po.doc("bad_key", dBadKey, false),
		po.multi("multi_chan", dMulti, "chan", 0),
	)
	if po.conv {
		ks = append(ks, po.doc("conv_float", dNums, false, ojg.NumConvFloat64))
	}
	if po.unmarshal != nil {
		ks = append(ks, po.unm("unmarshal", dUnm))
	}
	// ---- beyond the first 20
	ks = append(ks,
		po.doc("bad_string", dBadStr, false),
		po.doc("bad_number", dBadNum, false),
		po.doc("bad_literal", dBadLit, false),
		po.doc("bad_line1", dLine1Bad, false),
		po.doc("bad_opt", dValid, false, 3.14),
		po.doc("top_number", dTopNum, false),
		po.multi("multi_plaincb", dMulti, "cb", 0),
		po.multiX("reuse_multi", dReuseMany, "cbbool", 0, true, false),
	)
	if po.conv {
		ks = append(ks, po.doc("conv_string", dNums, false, ojg.NumConvString))
	}
	ks = append(ks, trest...)
	ks = append(ks, rrest...)
	ks = append(ks, po.optionKinds()...)
	ks = append(ks, po.abortKinds()...)
	return append(ks, po.surrogateKinds()...)
}

func (po *parserOps) senMenu() []Kind {
	rfirst, rrest := po.readerKinds()
	ks := []Kind{
		po.doc("valid", dValid, false),
		po.doc("plus_pending", dSenPlusP, false),
		po.doc("plus_pending_obj", dSenPlusO, false),
		po.doc("plus_ok", dSenPlus, false),
		po.doc("string_top", dSenStr, false),
		po.doc("bad_nested", dBadNest, false),
		po.doc("truncated", dTrunc, false),
		po.doc("bad_line3", dLine3Bad, false),
		po.doc("escapes", dEsc, false),
		po.multi("multi_cb", dMulti, "cbbool", 0),
		po.multi("cb_panic", dMulti, "cbbool", 2),
		po.doc("reuse_maps", dReuse, true),
		po.doc("reuse_maps2", dReuse2, true),
		po.doc("conv_float", dNums, false, ojg.NumConvFloat64),
	}
	tfirst, trest := po.tempKinds()
	ks = append(ks, rfirst...)
	ks = append(ks, po.reader("reader_fail", failer, `{a:[1 2 `))
	ks = append(ks, tfirst...)
	ks = append(ks,
		po.doc("squote", dSenSq, false),
		// ---- beyond the first 20
		po.doc("plus_pending_top", dSenPlusT, false),
		po.doc("comment_unterminated", dSenCmt, false),
		po.doc("token_func", dSenFunc, false),
		po.doc("bare", dSenBare, false),
		po.doc("bad_string", dBadStr, false),
		po.doc("bad_number", dBadNum, false),
		po.doc("bad_line1", dLine1Bad, false),
		po.multi("multi_chan", dMulti, "chan", 0),
		po.doc("conv_string", dNums, false, ojg.NumConvString),
		po.reader("reader_by3", by3, dSenSq),
		po.doc("bad_opt", dValid, false, 3.14),
		po.multiX("reuse_multi", dReuseMany, "cbbool", 0, true, false),
	)
	if po.unmarshal != nil {
		ks = append(ks, po.unm("unmarshal", dUnm))
	}
	ks = append(ks, trest...)
	ks = append(ks, rrest...)
	ks = append(ks, po.optionKinds()...)
	ks = append(ks, po.abortKinds()...)
	return append(ks, po.surrogateKinds()...)
}

// ---------------------------------------------------------------- validators / tokenizers
func errRes(err error, v any) map[string]any {
	res := parseRes(nil, err, nil)
	if v != nil {
		res["v"] = v
	}
	return res
}

func validatorMenu() []Kind {
	val := func(name, doc string, onlyOne bool) Kind {
		return Kind{Name: name, API: "oj.Validator.Validate", Run: func(inst any) Out {
			p := inst.(*oj.Validator)
			p.OnlyOne = onlyOne
			b := []byte(doc)
			err := p.Validate(b)
			return Out{Err: err, Res: errRes(err, nil), Scribble: scribbler(b)}
		}}
	}
	rd := func(name string, mk func([]byte) io.Reader, doc string, onlyOne bool) Kind {
		return Kind{Name: name, API: "oj.Validator.ValidateReader", Run: func(inst any) Out {
			p := inst.(*oj.Validator)
			p.OnlyOne = onlyOne
			err := p.ValidateReader(mk([]byte(doc)))
			return Out{Err: err, Res: errRes(err, nil)}
		}}
	}
	return []Kind{
		val("valid", dValid, true), val("bad_nested", dBadNest, true), val("truncated", dTrunc, true),
		val("bad_line3", dLine3Bad, true), val("escapes", dEsc, true), val("multi_onlyone", dMulti, true),
		val("multi_many", dMulti, false), val("deep", dDeep, true),
		rd("reader_big_ok", whole, dBig, true), rd("reader_late_bad", whole, dLateBad1, true),
		rd("reader_bad_line1", whole, dLine1Bad, true), rd("reader_bad_line3", whole, dLine3Bad, true),
		rd("reader_fail", failer, `{"a":[1,2,`, true), rd("reader_by3", by3, dEsc, true), rd("reader_many", whole, dMulti, false),
		val("bad_key", dBadKey, true), val("bom", "\xef\xbb\xbf[1,2]", true), val("bad_bom", "\xef\xbbx[1]", true),
		val("nums", dNums, true), val("bad_line1", dLine1Bad, true),
		// ---- beyond the first 20
		val("bad_string", dBadStr, true), val("bad_number", dBadNum, true), val("bad_literal", dBadLit, true),
		val("top_number", dTopNum, true), val("big_ok", dBig, true),
		rd("reader_small_ok", whole, dValid, true), rd("reader_late_bad_line3", whole, dLateBad3, true),
		rd("reader_fail_in_string", failer, `{"a":[1,"xy`, true), rd("reader_fail_in_number", failer, `{"a":[1,23`, true),
		rd("reader_multi_onlyone", whole, dMulti, true),
	}
}

// recHandler records token events; panics on the panicAt-th event (an aborted call).
type recHandler struct {
	ev      []any
	panicAt int
}

func (h *recHandler) add(x ...any) {
	h.ev = append(h.ev, x)
	if h.panicAt > 0 && len(h.ev) == h.panicAt {
		panic("handler boom")
	}
}
func (h *recHandler) Null()                { h.add("null") }
func (h *recHandler) Bool(b bool)          { h.add("bool", b) }
func (h *recHandler) Int(i int64)          { h.add("int", i) }
func (h *recHandler) Float(f float64)      { h.add("float", f) }
func (h *recHandler) Number(s string)      { h.add("number", s) }
func (h *recHandler) String(s string)      { h.add("string", s) }
func (h *recHandler) ObjectStart()         { h.add("{") }
func (h *recHandler) ObjectEnd()           { h.add("}") }
func (h *recHandler) Key(s string)         { h.add("key", s) }
func (h *recHandler) ArrayStart()          { h.add("[") }
func (h *recHandler) ArrayEnd()            { h.add("]") }
func (h *recHandler) view() any            { return map[string]any{"t": "events", "ev": absval.Atoms(h.ev)} }
func (h *recHandler) snapshot() func() any { return func() any { return h.view() } }

type tokOps struct {
	prefix string
	parse  func(inst any, onlyOne bool, b []byte, h oj.TokenHandler) error
	load   func(inst any, onlyOne bool, r io.Reader, h oj.TokenHandler) error
}

func (to *tokOps) menu(senDocs bool) []Kind {
	tk := func(name, doc string, onlyOne bool, panicAt int) Kind {
		return Kind{Name: name, API: to.prefix + "Parse", Run: func(inst any) Out {
			b := []byte(doc)
			h := &recHandler{panicAt: panicAt}
			// the events delivered before a panic are part of what the caller observed, so the
			// recover is here and not in runCall
			var err error
			cls := ""
			func() {
				defer func() {
					if r := recover(); r != nil {
						cls = "panic"
					}
				}()
				err = to.parse(inst, onlyOne, b, h)
			}()
			res := errRes(err, h.view())
			if cls != "" {
				res["c"] = cls
			}
			return Out{Err: err, Res: res, View: h.snapshot(), Scribble: scribbler(b)}
		}}
	}
	ldp := func(name string, mk func([]byte) io.Reader, doc string, onlyOne bool, panicAt int) Kind {
		return Kind{Name: name, API: to.prefix + "Load", Run: func(inst any) Out {
			h := &recHandler{panicAt: panicAt}
			var err error
			cls := ""
			func() {
				defer func() {
					if r := recover(); r != nil {
						cls = "panic"
					}
				}()
				err = to.load(inst, onlyOne, mk([]byte(doc)), h)
			}()
			res := errRes(err, h.view())
			if cls != "" {
				res["c"] = cls
			}
			return Out{Err: err, Res: res, View: h.snapshot()}
		}}
	}
	ld := func(name string, mk func([]byte) io.Reader, doc string, onlyOne bool) Kind {
		return ldp(name, mk, doc, onlyOne, 0)
	}
	ks := []Kind{
		tk("valid", dValid, true, 0), tk("bad_key", dBadKey, true, 0), tk("bad_nested", dBadNest, true, 0),
		tk("truncated", dTrunc, true, 0), tk("bad_line3", dLine3Bad, true, 0), tk("escapes", dEsc, true, 0),
		tk("multi_many", dMulti, false, 0), tk("handler_panic", dValid, true, 4), tk("handler_panic_key", dReuse, true, 2),
		tk("nums", dNums, true, 0),
		ld("load_big_ok", whole, dBig, true), ld("load_late_bad", whole, dLateBad1, true),
		ld("load_bad_line1", whole, dLine1Bad, true), ld("load_bad_line3", whole, dLine3Bad, true),
		ld("load_fail", failer, `{"a":[1,2,`, true), ld("load_by3", by3, dEsc, true),
		ldp("load_handler_panic", whole, dReuse, true, 5),
		// ---- beyond the first 20 (the SEN tokenizer's own kinds are inserted here)
		tk("bad_string", dBadStr, true, 0), tk("bad_number", dBadNum, true, 0), tk("bad_literal", dBadLit, true, 0),
		tk("bad_line1", dLine1Bad, true, 0), tk("multi_onlyone", dMulti, true, 0), tk("top_number", dTopNum, true, 0),
		ld("load_small_ok", whole, dValid, true), ld("load_late_bad_line3", whole, dLateBad3, true), ld("load_many", whole, dMulti, false),
		ld("load_multi_onlyone", whole, dMulti, true),
		ld("load_fail_in_string", failer, `{"a":[1,"xy`, true), ld("load_fail_in_number", failer, `{"a":[1,23`, true),
		tk("handler_panic_first", dValid, true, 1), ldp("load_handler_panic_first", whole, dValid, true, 1),
	}
	{
		names, docs := surrogateDocs()
		for i := range names {
			ks = append(ks, tk(names[i], docs[i], true, 0))
		}
		ks = append(ks, ld("load_hi_fail3", whole, docs[4], true), ld("load_lo3", whole, docs[5], true))
	}
	if senDocs {
		own := []Kind{tk("bare_key_trunc", `{a:1 b`, true, 0), tk("key_panic", dSenBare, true, 2), tk("bare", dSenBare, true, 0),
			tk("squote", dSenSq, true, 0), tk("comment_unterminated", dSenCmt, true, 0), tk("line_comment", dSenLine, true, 0)}
		ks = append(ks[:17:17], append(own, ks[17:]...)...) // the first three of them fall inside the first 20
	}
	return ks
}

// ---------------------------------------------------------------- writers
type panicM struct{}

func (panicM) MarshalJSON() ([]byte, error) { panic("marshal boom") }

type errM struct{}

func (errM) MarshalJSON() ([]byte, error) { return nil, errors.New("nope") }

type inner struct {
	In int
}

type tagged struct {
	A int    `json:"alpha"`
	B string `json:"beta,omitempty"`
	C []int
	inner
	D *int
}

type failW struct {
	okWrites int
	got      []byte
}

func (w *failW) Write(p []byte) (int, error) {
	if w.okWrites <= 0 {
		return 0, errors.New("write boom")
	}
	w.okWrites--
	w.got = append(w.got, p...)
	return len(p), nil
}

// deep returns v wrapped in n arrays.
func deep(n int, v any) any {
	for i := 0; i < n; i++ {
		v = []any{v}
	}
	return v
}

var (
	wData = map[string]any{"k": []any{1, "x<y>&z", true, nil, 2.5, map[string]any{"n": []any{}}}}
	wSort = map[string]any{"b": 1, "a": []any{map[string]any{"z": nil, "y": "s"}, int64(3)}, "c": map[string]any{}}
	wLong = []any{"0123456789", "abcdefghij", []any{"0123456789", map[string]any{"key": "abcdefghijklmnopqrstuvwxyz"}}, 12345678}
	wMisc = map[string]any{"k": []any{[]byte("hi"), 1.23456, "<&>", map[string]any{"nil": nil}}}
	wRows = []any{map[string]any{"a": 1, "b": 22}, map[string]any{"a": 333, "b": 4}, map[string]any{"a": 5, "b": 6}}
)

func outRes(s string, written []byte, err error, panicked bool) map[string]any {
	res := map[string]any{"c": "ok", "l": 0, "col": 0}
	if err != nil {
		res["c"] = "err"
	}
	if panicked {
		res["c"] = "panic"
	}
	res["v"] = map[string]any{"t": "out", "s": s, "w": string(written)}
	return res
}

func withOpt(base ojg.Options, mod func(o *ojg.Options)) ojg.Options {
	o := base
	if mod != nil {
		mod(&o)
	}
	return o
}

// wrOps abstracts oj.Writer and sen.Writer.
type wrOps struct {
	prefix  string
	setOpt  func(inst any, o ojg.Options)
	str     func(inst any, data any) string
	must    func(inst any, data any) []byte
	write   func(inst any, w io.Writer, data any) error
	marshal func(inst any, data any) ([]byte, error) // package-level function taking the writer as argument (nil: none)
	strName string
}

func (wo *wrOps) menu() []Kind {
	str := func(name string, o ojg.Options, data any) Kind {
		return Kind{Name: name, API: wo.prefix + wo.strName, Run: func(inst any) Out {
			wo.setOpt(inst, o)
			s := wo.str(inst, data)
			return Out{Res: outRes(s, nil, nil, false)}
		}}
	}
	must := func(name string, o ojg.Options, data any) Kind {
		return Kind{Name: name, API: wo.prefix + "Must" + wo.strName, Exempt: "buf", Run: func(inst any) Out {
			wo.setOpt(inst, o)
			b := wo.must(inst, data)
			return Out{Res: outRes(string(b), nil, nil, false), View: func() any {
				return map[string]any{"t": "out", "s": string(b), "w": ""}
			}}
		}}
	}
	wr := func(name string, o ojg.Options, data any, okWrites int) Kind {
		return Kind{Name: name, API: wo.prefix + "Write", Run: func(inst any) Out {
			wo.setOpt(inst, o)
			w := &failW{okWrites: okWrites}
			err := wo.write(inst, w, data)
			return Out{Err: err, Res: outRes("", w.got, err, false), View: func() any {
				return map[string]any{"t": "out", "s": "", "w": string(w.got)}
			}}
		}}
	}
	def := ojg.DefaultOptions
	ks := []Kind{
		str("default", def, wData),
		str("sort_indent", withOpt(def, func(o *ojg.Options) { o.Sort = true; o.Indent = 2 }), wSort),
		str("tab", withOpt(def, func(o *ojg.Options) { o.Tab = true }), wData),
		str("color", withOpt(ojg.BrightOptions, func(o *ojg.Options) { o.Sort = true }), wSort),
		must("must_buf", def, wData),
		must("must_buf_big", withOpt(def, func(o *ojg.Options) { o.InitSize = 16 }), wLong),
		str("long_small_limit", withOpt(def, func(o *ojg.Options) { o.WriteLimit = 8 }), wLong), // a leftover io.Writer would be flushed into
		wr("write_ok_small_limit", withOpt(def, func(o *ojg.Options) { o.WriteLimit = 8 }), wLong, 1000),
		wr("write_fail", def, wData, 0),
		wr("write_fail_mid", withOpt(def, func(o *ojg.Options) { o.WriteLimit = 8 }), wLong, 1),
		str("panic_marshaler", def, []any{1, panicM{}}),
		wr("err_marshaler", def, []any{"x", errM{}}, 1000),
		str("struct_tags", ojg.GoOptions, &tagged{A: 1, C: []int{2}, inner: inner{In: 3}}),
		str("struct_plain", withOpt(def, func(o *ojg.Options) { o.NestEmbed = true; o.OmitNil = true; o.Sort = true }), &tagged{A: 1, B: "b", inner: inner{In: 3}}),
		str("chan_nonstrict", def, []any{make(chan int), 1}),
		str("noreflect", withOpt(def, func(o *ojg.Options) { o.NoReflect = true }), []any{inner{In: 7}}),
		// internal mode switches, each followed (in the histories) by ordinary values: nesting beyond the
		// indentation strings (128 spaces / 31 tabs)
		str("deep_indent", withOpt(def, func(o *ojg.Options) { o.Sort = true; o.Indent = 2 }), deep(140, map[string]any{"k": []any{1, 2}})),
		str("deep_tab", withOpt(def, func(o *ojg.Options) { o.Tab = true }), deep(40, []any{1, "x"})),
		str("deep_tight", def, deep(140, 1)),
		str("misc_opts", withOpt(def, func(o *ojg.Options) {
			o.HTMLUnsafe = false
			o.BytesAs = ojg.BytesAsArray
			o.FloatFormat = "%.2f"
			o.OmitNil = true
		}), wMisc),
	}
	if wo.marshal != nil {
		mk := func(name string, o ojg.Options, data any) Kind {
			return Kind{Name: name, API: wo.prefix + "(as argument)", Run: func(inst any) Out {
				wo.setOpt(inst, o)
				b, err := wo.marshal(inst, data)
				return Out{Err: err, Res: outRes(string(b), nil, err, false), View: func() any {
					return map[string]any{"t": "out", "s": string(b), "w": ""}
				}}
			}}
		}
		ks = append(ks, mk("pkg_with_writer", def, wData), mk("pkg_with_writer_chan", def, []any{make(chan int)}))
	}
	return ks
}

func prettyMenu() []Kind {
	set := func(inst any, o ojg.Options, width, depth int, align, senOut bool) *pretty.Writer {
		w := inst.(*pretty.Writer)
		// Indent, InitSize and WriteLimit are managed by pretty.Writer itself (encode defaults / recomputes
		// them); a caller never sets them, so the kinds leave whatever the previous call left there.
		ind, is, wl := w.Indent, w.InitSize, w.WriteLimit
		w.Options = o
		w.Indent, w.InitSize, w.WriteLimit = ind, is, wl
		w.Width, w.MaxDepth, w.Align, w.SEN = width, depth, align, senOut
		return w
	}
	def := ojg.DefaultOptions
	enc := func(name string, o ojg.Options, width, depth int, align, senOut bool, data any) Kind {
		return Kind{Name: name, API: "pretty.Writer.Encode", Exempt: "buf", Run: func(inst any) Out {
			w := set(inst, o, width, depth, align, senOut)
			b := w.Encode(data)
			return Out{Res: outRes(string(b), nil, nil, false), View: func() any {
				return map[string]any{"t": "out", "s": string(b), "w": ""}
			}}
		}}
	}
	mar := func(name string, o ojg.Options, width, depth int, align, senOut bool, data any) Kind {
		return Kind{Name: name, API: "pretty.Writer.Marshal", Run: func(inst any) Out {
			w := set(inst, o, width, depth, align, senOut)
			b, err := w.Marshal(data)
			return Out{Err: err, Res: outRes(string(b), nil, err, false), View: func() any {
				return map[string]any{"t": "out", "s": string(b), "w": ""}
			}}
		}}
	}
	wr := func(name string, o ojg.Options, width int, data any, okWrites int) Kind {
		return Kind{Name: name, API: "pretty.Writer.Write", Run: func(inst any) Out {
			w := set(inst, o, width, 3, false, false)
			fw := &failW{okWrites: okWrites}
			err := w.Write(fw, data)
			return Out{Err: err, Res: outRes("", fw.got, err, false), View: func() any {
				return map[string]any{"t": "out", "s": "", "w": string(fw.got)}
			}}
		}}
	}
	srt := withOpt(def, func(o *ojg.Options) { o.Sort = true })
	return []Kind{
		mar("marshal_w80", srt, 80, 3, false, false, wSort),
		mar("marshal_w20", srt, 20, 2, false, false, wSort),
		mar("marshal_sen", srt, 40, 3, false, true, wSort),
		mar("marshal_align", srt, 60, 3, true, false, wRows),
		mar("marshal_color", withOpt(ojg.BrightOptions, func(o *ojg.Options) { o.Sort = true }), 80, 3, false, false, wSort),
		mar("marshal_panic", srt, 80, 3, false, false, []any{1, panicM{}}),
		mar("marshal_long", srt, 30, 3, false, false, wLong),
		enc("encode_buf", srt, 80, 3, false, false, wSort),
		enc("encode_buf_sen", srt, 20, 3, false, true, wLong),
		enc("encode_panic", srt, 80, 3, false, false, []any{panicM{}}),
		wr("write_ok", srt, 80, wSort, 1000),
		wr("write_fail", srt, 80, wSort, 0),
		wr("write_long", srt, 30, wLong, 1000),
		mar("marshal_struct", withOpt(ojg.GoOptions, func(o *ojg.Options) { o.Sort = true }), 80, 3, false, false, &tagged{A: 1, C: []int{2}}),
		// internal mode switches: nesting deeper than Width*3/8 (indent downgrade), deeper than the indentation
		// string, width beyond the indentation string
		mar("marshal_deep40", srt, 80, 3, false, false, deep(40, map[string]any{"k": []any{1, 2}})),
		mar("marshal_deep29", srt, 80, 3, false, false, deep(29, []any{1, 2})),
		mar("marshal_deep140_sen", srt, 40, 2, false, true, deep(140, 1)),
		mar("marshal_w200", srt, 200, 3, true, false, wRows),
		enc("encode_deep40", srt, 80, 3, false, false, deep(40, wSort)),
		wr("write_deep40", srt, 80, deep(40, wSort), 1000),
		wr("write_fail_deep", srt, 80, deep(40, wSort), 0),
	}
}

// ---------------------------------------------------------------- pooled package-level functions
func ojPoolParsers() []Kind {
	po := &parserOps{prefix: "oj.", conv: true,
		parse: func(_ any, b []byte, args ...any) (any, error) { return oj.Parse(b, args...) },
		read:  func(_ any, r io.Reader, args ...any) (any, error) { return oj.Load(r, args...) },
	}
	ks := po.jsonMenu()
	out := []Kind{}
	for _, k := range ks {
		if strings.HasPrefix(k.Name, "reuse_") || strings.HasSuffix(k.Name, ":Reuse") { // Reuse cannot be set through the package-level functions
			continue
		}
		if k.API == "oj.ParseReader" {
			k.API = "oj.Load"
		}
		out = append(out, k)
	}
	out = append(out, Kind{Name: "must_bad", API: "oj.MustParse", Run: func(any) Out {
		b := []byte(dBadNest)
		v := oj.MustParse(b)
		return Out{Res: parseRes(v, nil, nil)}
	}}, Kind{Name: "parse_string", API: "oj.ParseString", Run: func(any) Out {
		v, err := oj.ParseString(dEsc)
		return Out{Err: err, Res: parseRes(v, err, nil), View: func() any { return held(v, err, nil) }}
	}})
	return out
}

func senPoolParsers() []Kind {
	po := &parserOps{prefix: "sen.", conv: true,
		parse: func(_ any, b []byte, args ...any) (any, error) { return sen.Parse(b, args...) },
		read:  func(_ any, r io.Reader, args ...any) (any, error) { return sen.ParseReader(r, args...) },
	}
	out := []Kind{}
	for _, k := range po.senMenu() {
		if strings.HasPrefix(k.Name, "reuse_") || strings.HasSuffix(k.Name, ":Reuse") {
			continue
		}
		out = append(out, k)
	}
	out = append(out, Kind{Name: "must_bad", API: "sen.MustParse", Run: func(any) Out {
		v := sen.MustParse([]byte(dBadNest))
		return Out{Res: parseRes(v, nil, nil)}
	}})
	return out
}

func ojPoolWriters() []Kind {
	js := func(name string, data any, args ...any) Kind {
		return Kind{Name: name, API: "oj.JSON", Run: func(any) Out {
			return Out{Res: outRes(oj.JSON(data, args...), nil, nil, false)}
		}}
	}
	ma := func(name string, data any, args ...any) Kind {
		return Kind{Name: name, API: "oj.Marshal", Run: func(any) Out {
			b, err := oj.Marshal(data, args...)
			return Out{Err: err, Res: outRes(string(b), nil, err, false), View: func() any {
				return map[string]any{"t": "out", "s": string(b), "w": ""}
			}}
		}}
	}
	wr := func(name string, data any, okWrites int, args ...any) Kind {
		return Kind{Name: name, API: "oj.Write", Run: func(any) Out {
			w := &failW{okWrites: okWrites}
			err := oj.Write(w, data, args...)
			return Out{Err: err, Res: outRes("", w.got, err, false), View: func() any {
				return map[string]any{"t": "out", "s": "", "w": string(w.got)}
			}}
		}}
	}
	so := &ojg.Options{Sort: true, Indent: 2}
	return []Kind{
		js("json_default", wData), js("json_indent_arg", wData, 2), js("json_opts_arg", wSort, so),
		js("json_panic", []any{1, panicM{}}), js("json_chan", []any{make(chan int), 1}),
		js("json_struct", &tagged{A: 1, C: []int{2}}), js("json_long", wLong),
		ma("marshal_ok", wData), ma("marshal_chan", []any{make(chan int)}), ma("marshal_panic", []any{panicM{}}),
		ma("marshal_opts_arg", wSort, so), ma("marshal_struct", &tagged{A: 1, B: "b"}), ma("marshal_nil_slice", []any(nil)),
		wr("write_ok", wLong, 1000), wr("write_fail", wData, 0), wr("write_err_marshaler", []any{"x", errM{}}, 1000),
	}
}

func senPoolWriters() []Kind {
	st := func(name string, data any, args ...any) Kind {
		return Kind{Name: name, API: "sen.String", Run: func(any) Out {
			return Out{Res: outRes(sen.String(data, args...), nil, nil, false)}
		}}
	}
	by := func(name string, data any, args ...any) Kind {
		return Kind{Name: name, API: "sen.Bytes", Exempt: "buf", Run: func(any) Out {
			b := sen.Bytes(data, args...)
			return Out{Res: outRes(string(b), nil, nil, false), View: func() any {
				return map[string]any{"t": "out", "s": string(b), "w": ""}
			}}
		}}
	}
	wr := func(name string, data any, okWrites int, args ...any) Kind {
		return Kind{Name: name, API: "sen.Write", Run: func(any) Out {
			w := &failW{okWrites: okWrites}
			err := sen.Write(w, data, args...)
			return Out{Err: err, Res: outRes("", w.got, err, false), View: func() any {
				return map[string]any{"t": "out", "s": "", "w": string(w.got)}
			}}
		}}
	}
	so := &ojg.Options{Sort: true, Indent: 2}
	return []Kind{
		st("string_default", wData), st("string_indent_arg", wData, 2), st("string_opts_arg", wSort, so),
		st("string_panic", []any{1, panicM{}}), st("string_chan", []any{make(chan int), 1}),
		st("string_struct", &tagged{A: 1, C: []int{2}}), st("string_long", wLong),
		by("bytes_buf", wData), by("bytes_buf_long", wLong), by("bytes_panic", []any{panicM{}}),
		wr("write_ok", wLong, 1000), wr("write_fail", wData, 0), wr("write_err_marshaler", []any{"x", errM{}}, 1000),
	}
}

// ---------------------------------------------------------------- the families
var families []Family

func init() {
	ojp := &parserOps{prefix: "oj.Parser.", conv: true,
		parse:     func(i any, b []byte, args ...any) (any, error) { return i.(*oj.Parser).Parse(b, args...) },
		read:      func(i any, r io.Reader, args ...any) (any, error) { return i.(*oj.Parser).ParseReader(r, args...) },
		setReuse:  func(i any, on bool) { i.(*oj.Parser).Reuse = on },
		unmarshal: func(i any, b []byte, vp any) error { return i.(*oj.Parser).Unmarshal(b, vp) },
	}
	genp := &parserOps{prefix: "gen.Parser.", genCB: true,
		parse: func(i any, b []byte, args ...any) (any, error) {
			n, err := i.(*gen.Parser).Parse(b, args...)
			if n == nil {
				return nil, err
			}
			return n, err
		},
		read: func(i any, r io.Reader, args ...any) (any, error) {
			n, err := i.(*gen.Parser).ParseReader(r, args...)
			if n == nil {
				return nil, err
			}
			return n, err
		},
		setReuse: func(i any, on bool) { i.(*gen.Parser).Reuse = on },
	}
	senp := &parserOps{prefix: "sen.Parser.", conv: true,
		parse:     func(i any, b []byte, args ...any) (any, error) { return i.(*sen.Parser).Parse(b, args...) },
		read:      func(i any, r io.Reader, args ...any) (any, error) { return i.(*sen.Parser).ParseReader(r, args...) },
		setReuse:  func(i any, on bool) { i.(*sen.Parser).Reuse = on },
		unmarshal: func(i any, b []byte, vp any) error { return i.(*sen.Parser).Unmarshal(b, vp) },
	}
	ojt := &tokOps{prefix: "oj.Tokenizer.",
		parse: func(i any, one bool, b []byte, h oj.TokenHandler) error {
			t := i.(*oj.Tokenizer)
			t.OnlyOne = one
			return t.Parse(b, h)
		},
		load: func(i any, one bool, r io.Reader, h oj.TokenHandler) error {
			t := i.(*oj.Tokenizer)
			t.OnlyOne = one
			return t.Load(r, h)
		},
	}
	sent := &tokOps{prefix: "sen.Tokenizer.",
		parse: func(i any, one bool, b []byte, h oj.TokenHandler) error {
			t := i.(*sen.Tokenizer)
			t.OnlyOne = one
			return t.Parse(b, h)
		},
		load: func(i any, one bool, r io.Reader, h oj.TokenHandler) error {
			t := i.(*sen.Tokenizer)
			t.OnlyOne = one
			return t.Load(r, h)
		},
	}
	ojw := &wrOps{prefix: "oj.Writer.", strName: "JSON",
		setOpt: func(i any, o ojg.Options) { i.(*oj.Writer).Options = o },
		str:    func(i any, d any) string { return i.(*oj.Writer).JSON(d) },
		must:   func(i any, d any) []byte { return i.(*oj.Writer).MustJSON(d) },
		write:  func(i any, w io.Writer, d any) error { return i.(*oj.Writer).Write(w, d) },
		marshal: func(i any, d any) ([]byte, error) {
			return oj.Marshal(d, i.(*oj.Writer))
		},
	}
	senw := &wrOps{prefix: "sen.Writer.", strName: "SEN",
		setOpt: func(i any, o ojg.Options) { i.(*sen.Writer).Options = o },
		str:    func(i any, d any) string { return i.(*sen.Writer).SEN(d) },
		must:   func(i any, d any) []byte { return i.(*sen.Writer).MustSEN(d) },
		write:  func(i any, w io.Writer, d any) error { return i.(*sen.Writer).Write(w, d) },
	}
	families = []Family{
		{Name: "oj.Parser", New: func() any { return &oj.Parser{} }, Kinds: ojp.jsonMenu()},
		{Name: "gen.Parser", New: func() any { return &gen.Parser{} }, Kinds: genp.jsonMenu()},
		{Name: "sen.Parser", New: func() any { return &sen.Parser{} }, Kinds: senp.senMenu()},
		{Name: "oj.Validator", New: func() any { return &oj.Validator{} }, Kinds: validatorMenu()},
		{Name: "oj.Tokenizer", New: func() any { return &oj.Tokenizer{} }, Kinds: ojt.menu(false)},
		{Name: "sen.Tokenizer", New: func() any { return &sen.Tokenizer{} }, Kinds: sent.menu(true)},
		{Name: "oj.Writer", New: func() any { return &oj.Writer{} }, Kinds: ojw.menu()},
		{Name: "sen.Writer", New: func() any { return &sen.Writer{} }, Kinds: senw.menu()},
		{Name: "pretty.Writer", New: func() any { return &pretty.Writer{} }, Kinds: prettyMenu()},
		{Name: "oj.parserPool", Pooled: true, Kinds: ojPoolParsers()},
		{Name: "sen.parserPool", Pooled: true, Kinds: senPoolParsers()},
		{Name: "oj.writerPools", Pooled: true, Kinds: ojPoolWriters()},
		{Name: "sen.writerPool", Pooled: true, Kinds: senPoolWriters()},
	}
}
