package main

// Option-toggle families (spec/ReuseToggle.tla).
//
// Law (Reuse.tla, CallConforms): the result of a call depends only on its own arguments and options.  For the writers
// the options are FIELDS of the instance the caller sets between calls (or an *ojg.Options argument), so every history
//
//	<entry e1 with option set A, value v>  <entry e2 with option set B, value v>  <entry e1 with option set A, value v>
//
// on ONE writer, with the SAME Go type and value v in every call, must give the fresh-writer results.  A writer (or a
// package wide cache) that remembers anything derived from (type, options) - a struct plan, an append function, an
// indentation string, a colour table - and keys it too coarsely fails exactly these histories.
//
// spec/ReuseToggle.tla owns WHICH histories are run (families x entry points x option sets x value classes, with the
// applicability tables); this file only says HOW a kind  "<entry>|<option>|<class>"  is executed.  props/C07.py refuses
// to run (exit 2) when the two tables disagree in either direction.
//
// These families are "named": they only take histories that name them (no index histories of the generic menus).

import (
	"bytes"
	"fmt"
	"regexp"
	"time"

	"github.com/ohler55/ojg"
	"github.com/ohler55/ojg/gen"
	"github.com/ohler55/ojg/oj"
	"github.com/ohler55/ojg/pretty"
	"github.com/ohler55/ojg/sen"
)

// ---- value classes ---------------------------------------------------------------------------------------------------

type tgSub struct {
	X     int
	Blank string `json:"blank,omitempty"`
	P     *int
}

type TgEmb struct {
	In   int
	EmbS string `json:"emb_s"`
}

type tgJM struct{ N int }

func (m tgJM) MarshalJSON() ([]byte, error) {
	return []byte(fmt.Sprintf(`{"jm":%d,"z":null}`, m.N)), nil
}

type tgTM struct{ N int }

func (m tgTM) MarshalText() ([]byte, error) { return []byte(fmt.Sprintf("tm<%d>", m.N)), nil }

type tgSimp struct{ N int }

func (s tgSimp) Simplify() any {
	return map[string]any{"n": s.N, "nil": nil, "empty": "", "list": []any{}, "when": tgTime, "h": "<&>"}
}

type tgGen struct{ N int }

func (g tgGen) Generic() gen.Node {
	return gen.Object{"n": gen.Int(g.N), "nil": nil, "empty": gen.String(""), "f": gen.Float(1.23456)}
}

type tgT struct {
	Alpha int    `json:"a_tag"`
	Empty string `json:"empty_tag,omitempty"`
	Zero  int
	Nil   *int
	Ptr   *tgSub
	List  []int
	None  []string
	M     map[string]any
	Any   any
	TgEmb
	Sub   tgSub
	When  time.Time
	Raw   []byte
	F     float64
	Html  string `json:"html,omitempty"`
	JM    tgJM
	TM    tgTM
	lower int
}

type tgWrap struct {
	J  tgJM
	PJ *tgJM
	T  tgTM
	S  tgSimp
	G  tgGen
}

var (
	tgTime  = time.Date(2021, 3, 4, 5, 6, 7, 123456789, time.UTC)
	tgSeven = 7
	tgValue = tgT{Alpha: 1, Ptr: &tgSub{X: 3}, List: []int{1, 2}, M: map[string]any{"k": nil}, TgEmb: TgEmb{In: 0, EmbS: "e"},
		Sub: tgSub{X: 2, P: &tgSeven}, When: tgTime, Raw: []byte("hi<"), F: 1.23456, Html: "<a&b>", JM: tgJM{1}, TM: tgTM{2}, lower: 9}

	tgClasses = map[string]any{
		// struct as the top-level value (pointer)
		"struct-top": &tgValue,
		// struct as element of []any / value of map[string]any (reflection path without a plan handed down), pointer and value
		"struct-in-any": []any{&tgValue, tgValue, map[string]any{"k": tgValue}},
		// typed containers of structs (the plan is looked up once and handed down)
		"typed": []any{[]tgSub{{X: 1}, {X: 0, Blank: "b"}}, []*tgSub{{X: 4}, nil}, map[string]tgSub{"only": {X: 5}}, [2]tgSub{{X: 6}, {}},
			map[string]*tgT{"p": &tgValue}},
		// plain maps and slices with nil / empty / time / bytes / float / html members
		"map": map[string]any{"b": []any{1, nil, "<x>&", []byte{1, 2}, 2.5, tgTime, []any{}, map[string]any{}},
			"a": map[string]any{"nil": nil, "empty": "", "zero": 0, "f": false, "s": "x"}, "c": nil, "d": "", "e": int64(12)},
		// gen.Node trees
		"gen": gen.Object{"b": gen.Array{gen.Int(1), nil, gen.String("<x>&"), gen.Float(2.5), gen.Time(tgTime), gen.Array{}, gen.Object{}, gen.Bool(true)},
			"a": gen.Object{"nil": nil, "empty": gen.String(""), "big": gen.Big("12345678901234567890")}, "c": nil},
		// json.Marshaler / encoding.TextMarshaler / Simplifier / Genericer, by value, by pointer and as struct members
		"marshaler": []any{tgJM{1}, &tgJM{2}, tgTM{3}, tgSimp{4}, &tgSimp{5}, tgGen{6}, tgWrap{J: tgJM{7}, PJ: &tgJM{8}, T: tgTM{9}, S: tgSimp{10}, G: tgGen{11}}},
	}
	tgClassOrder = []string{"struct-top", "struct-in-any", "typed", "map", "gen", "marshaler"}
	// classes whose values contain maps with several members: their output is only determined with Sort on
	tgUnordered = map[string]bool{"map": true, "gen": true, "marshaler": true}
)

// ---- option sets -----------------------------------------------------------------------------------------------------

type tgOption struct {
	name    string
	mod     func(o *ojg.Options)
	noSort  bool // output order of multi-member maps undetermined
	sizes   bool // touches Indent / InitSize / WriteLimit (pretty.Writer manages them itself: not applicable there)
	pretty  func(w *pretty.Writer)
	onlyFor string // "" | "pretty"
}

func tgBase() ojg.Options {
	o := ojg.DefaultOptions
	o.Sort = true
	return o
}

var tgOptions = []tgOption{
	{name: "base", mod: func(o *ojg.Options) {}},
	{name: "Indent2", mod: func(o *ojg.Options) { o.Indent = 2 }, sizes: true},
	{name: "Indent5", mod: func(o *ojg.Options) { o.Indent = 5 }, sizes: true},
	{name: "Tab", mod: func(o *ojg.Options) { o.Tab = true }, sizes: true},
	{name: "NoSort", mod: func(o *ojg.Options) { o.Sort = false }, noSort: true},
	{name: "OmitNil", mod: func(o *ojg.Options) { o.OmitNil = true }},
	{name: "OmitEmpty", mod: func(o *ojg.Options) { o.OmitEmpty = true }},
	{name: "OmitNil+OmitEmpty", mod: func(o *ojg.Options) { o.OmitNil = true; o.OmitEmpty = true }},
	{name: "UseTags", mod: func(o *ojg.Options) { o.UseTags = true }},
	{name: "KeyExact", mod: func(o *ojg.Options) { o.KeyExact = true }},
	{name: "UseTags+KeyExact", mod: func(o *ojg.Options) { o.UseTags = true; o.KeyExact = true }},
	{name: "NestEmbed", mod: func(o *ojg.Options) { o.NestEmbed = true }},
	{name: "OmitEmpty+UseTags", mod: func(o *ojg.Options) { o.OmitEmpty = true; o.UseTags = true }},
	{name: "OmitEmpty+NestEmbed", mod: func(o *ojg.Options) { o.OmitEmpty = true; o.NestEmbed = true }},
	{name: "Indent2+OmitEmpty", mod: func(o *ojg.Options) { o.Indent = 2; o.OmitEmpty = true }, sizes: true},
	{name: "CreateKey", mod: func(o *ojg.Options) { o.CreateKey = "^" }},
	{name: "CreateKey+FullTypePath", mod: func(o *ojg.Options) { o.CreateKey = "^"; o.FullTypePath = true }},
	{name: "NoReflect", mod: func(o *ojg.Options) { o.NoReflect = true }},
	{name: "Color", mod: func(o *ojg.Options) { o.Color = true }},
	{name: "HTMLSafe", mod: func(o *ojg.Options) { o.HTMLUnsafe = false }},
	{name: "BytesAsBase64", mod: func(o *ojg.Options) { o.BytesAs = ojg.BytesAsBase64 }},
	{name: "BytesAsArray", mod: func(o *ojg.Options) { o.BytesAs = ojg.BytesAsArray }},
	{name: "TimeSecond", mod: func(o *ojg.Options) { o.TimeFormat = "second" }},
	{name: "TimeNano", mod: func(o *ojg.Options) { o.TimeFormat = "nano" }},
	{name: "TimeLayout", mod: func(o *ojg.Options) { o.TimeFormat = time.RFC1123 }},
	{name: "TimeWrap", mod: func(o *ojg.Options) { o.TimeWrap = "@" }},
	{name: "TimeMap", mod: func(o *ojg.Options) { o.TimeMap = true; o.CreateKey = "^" }},
	{name: "FloatFormat", mod: func(o *ojg.Options) { o.FloatFormat = "%.2f" }},
	{name: "InitSize16", mod: func(o *ojg.Options) { o.InitSize = 16 }, sizes: true},
	{name: "WriteLimit8", mod: func(o *ojg.Options) { o.WriteLimit = 8 }, sizes: true},
	{name: "GoOptions", mod: func(o *ojg.Options) { *o = ojg.GoOptions; o.Sort = true }},
	{name: "Width20", mod: func(o *ojg.Options) {}, pretty: func(w *pretty.Writer) { w.Width = 20 }, onlyFor: "pretty"},
	{name: "MaxDepth1", mod: func(o *ojg.Options) {}, pretty: func(w *pretty.Writer) { w.MaxDepth = 1 }, onlyFor: "pretty"},
	{name: "Align", mod: func(o *ojg.Options) {}, pretty: func(w *pretty.Writer) { w.Align = true }, onlyFor: "pretty"},
	{name: "Width200+Align", mod: func(o *ojg.Options) {}, pretty: func(w *pretty.Writer) { w.Width = 200; w.Align = true }, onlyFor: "pretty"},
}

func (t *tgOption) options() ojg.Options {
	o := tgBase()
	t.mod(&o)
	return o
}

// ---- entry points ----------------------------------------------------------------------------------------------------

type tgEntry struct {
	name string
	api  string
	// run executes the entry point on the history's instance with option set opt and value data
	run func(inst any, opt *tgOption, data any) Out
}

func bytesOut(b []byte, err error) Out {
	return Out{Err: err, Res: outRes(string(b), nil, err, false), View: func() any {
		return map[string]any{"t": "out", "s": string(b), "w": ""}
	}}
}

func tgOjEntries() []tgEntry {
	set := func(inst any, opt *tgOption) *oj.Writer {
		w := inst.(*oj.Writer)
		w.Options = opt.options()
		return w
	}
	return []tgEntry{
		{"W.JSON", "oj.Writer.JSON", func(i any, o *tgOption, d any) Out { return strOut(set(i, o).JSON(d), nil) }},
		{"W.MustJSON", "oj.Writer.MustJSON", func(i any, o *tgOption, d any) Out { return strOut(string(set(i, o).MustJSON(d)), nil) }},
		{"W.Write", "oj.Writer.Write", func(i any, o *tgOption, d any) Out {
			var b bytes.Buffer
			err := set(i, o).Write(&b, d)
			return strOut(b.String(), err)
		}},
		{"W.MustWrite", "oj.Writer.MustWrite", func(i any, o *tgOption, d any) Out {
			var b bytes.Buffer
			set(i, o).MustWrite(&b, d)
			return strOut(b.String(), nil)
		}},
		{"oj.JSON(d,W)", "oj.JSON(data, *Writer)", func(i any, o *tgOption, d any) Out { return strOut(oj.JSON(d, set(i, o)), nil) }},
		{"oj.Marshal(d,W)", "oj.Marshal(data, *Writer)", func(i any, o *tgOption, d any) Out { return bytesOut(oj.Marshal(d, set(i, o))) }},
		{"oj.Write(w,d,W)", "oj.Write(w, data, *Writer)", func(i any, o *tgOption, d any) Out {
			var b bytes.Buffer
			err := oj.Write(&b, d, set(i, o))
			return strOut(b.String(), err)
		}},
		{"oj.JSON(d,O)", "oj.JSON(data, *Options)", func(_ any, o *tgOption, d any) Out {
			op := o.options()
			return strOut(oj.JSON(d, &op), nil)
		}},
		{"oj.Marshal(d,O)", "oj.Marshal(data, *Options)", func(_ any, o *tgOption, d any) Out {
			op := o.options()
			return bytesOut(oj.Marshal(d, &op))
		}},
		{"oj.Write(w,d,O)", "oj.Write(w, data, *Options)", func(_ any, o *tgOption, d any) Out {
			var b bytes.Buffer
			op := o.options()
			err := oj.Write(&b, d, &op)
			return strOut(b.String(), err)
		}},
	}
}

func tgSenEntries() []tgEntry {
	set := func(inst any, opt *tgOption) *sen.Writer {
		w := inst.(*sen.Writer)
		w.Options = opt.options()
		return w
	}
	return []tgEntry{
		{"W.SEN", "sen.Writer.SEN", func(i any, o *tgOption, d any) Out { return strOut(set(i, o).SEN(d), nil) }},
		{"W.MustSEN", "sen.Writer.MustSEN", func(i any, o *tgOption, d any) Out { return strOut(string(set(i, o).MustSEN(d)), nil) }},
		{"W.Write", "sen.Writer.Write", func(i any, o *tgOption, d any) Out {
			var b bytes.Buffer
			err := set(i, o).Write(&b, d)
			return strOut(b.String(), err)
		}},
		{"W.MustWrite", "sen.Writer.MustWrite", func(i any, o *tgOption, d any) Out {
			var b bytes.Buffer
			set(i, o).MustWrite(&b, d)
			return strOut(b.String(), nil)
		}},
		{"sen.String(d,W)", "sen.String(data, *Writer)", func(i any, o *tgOption, d any) Out { return strOut(sen.String(d, set(i, o)), nil) }},
		{"sen.Bytes(d,W)", "sen.Bytes(data, *Writer)", func(i any, o *tgOption, d any) Out { return strOut(string(sen.Bytes(d, set(i, o))), nil) }},
		{"sen.Write(w,d,W)", "sen.Write(w, data, *Writer)", func(i any, o *tgOption, d any) Out {
			var b bytes.Buffer
			err := sen.Write(&b, d, set(i, o))
			return strOut(b.String(), err)
		}},
		{"sen.MustWrite(w,d,W)", "sen.MustWrite(w, data, *Writer)", func(i any, o *tgOption, d any) Out {
			var b bytes.Buffer
			sen.MustWrite(&b, d, set(i, o))
			return strOut(b.String(), nil)
		}},
		{"sen.String(d,O)", "sen.String(data, *Options)", func(_ any, o *tgOption, d any) Out {
			op := o.options()
			return strOut(sen.String(d, &op), nil)
		}},
		{"sen.Bytes(d,O)", "sen.Bytes(data, *Options)", func(_ any, o *tgOption, d any) Out {
			op := o.options()
			return strOut(string(sen.Bytes(d, &op)), nil)
		}},
		{"sen.Write(w,d,O)", "sen.Write(w, data, *Options)", func(_ any, o *tgOption, d any) Out {
			var b bytes.Buffer
			op := o.options()
			err := sen.Write(&b, d, &op)
			return strOut(b.String(), err)
		}},
	}
}

func tgPrettyEntries() []tgEntry {
	set := func(inst any, opt *tgOption, senOut bool) *pretty.Writer {
		w := inst.(*pretty.Writer)
		// Indent, InitSize and WriteLimit are managed by pretty.Writer itself; a caller never sets them
		ind, is, wl := w.Indent, w.InitSize, w.WriteLimit
		w.Options = opt.options()
		w.Indent, w.InitSize, w.WriteLimit = ind, is, wl
		w.Width, w.MaxDepth, w.Align, w.SEN = 60, 3, false, senOut
		if opt.pretty != nil {
			opt.pretty(w)
		}
		return w
	}
	// package-level functions: width.depth as a float64, align as a bool, the options as *ojg.Options
	args := func(opt *tgOption) []any {
		w := pretty.Writer{Width: 60, MaxDepth: 3}
		if opt.pretty != nil {
			opt.pretty(&w)
		}
		op := opt.options()
		return []any{float64(w.Width) + float64(w.MaxDepth)/10.0, w.Align, &op}
	}
	mar := func(senOut bool) func(i any, o *tgOption, d any) Out {
		return func(i any, o *tgOption, d any) Out { return bytesOut(set(i, o, senOut).Marshal(d)) }
	}
	return []tgEntry{
		{"W.Marshal", "pretty.Writer.Marshal", mar(false)},
		{"W.Marshal(SEN)", "pretty.Writer.Marshal", mar(true)},
		{"W.Encode", "pretty.Writer.Encode", func(i any, o *tgOption, d any) Out { return strOut(string(set(i, o, false).Encode(d)), nil) }},
		{"W.Write", "pretty.Writer.Write", func(i any, o *tgOption, d any) Out {
			var b bytes.Buffer
			err := set(i, o, false).Write(&b, d)
			return strOut(b.String(), err)
		}},
		{"W.Write(SEN)", "pretty.Writer.Write", func(i any, o *tgOption, d any) Out {
			var b bytes.Buffer
			err := set(i, o, true).Write(&b, d)
			return strOut(b.String(), err)
		}},
		{"pretty.JSON(d,O)", "pretty.JSON(data, *Options)", func(_ any, o *tgOption, d any) Out { return strOut(pretty.JSON(d, args(o)...), nil) }},
		{"pretty.SEN(d,O)", "pretty.SEN(data, *Options)", func(_ any, o *tgOption, d any) Out { return strOut(pretty.SEN(d, args(o)...), nil) }},
		{"pretty.WriteJSON(w,d,O)", "pretty.WriteJSON(w, data, *Options)", func(_ any, o *tgOption, d any) Out {
			var b bytes.Buffer
			err := pretty.WriteJSON(&b, d, args(o)...)
			return strOut(b.String(), err)
		}},
		{"pretty.WriteSEN(w,d,O)", "pretty.WriteSEN(w, data, *Options)", func(_ any, o *tgOption, d any) Out {
			var b bytes.Buffer
			err := pretty.WriteSEN(&b, d, args(o)...)
			return strOut(b.String(), err)
		}},
	}
}

var addrRE = regexp.MustCompile(`0x[0-9a-f]{4,}`)

func scrubAddresses(o Out) Out {
	scrub := func(v any) any {
		if m, ok := v.(map[string]any); ok {
			if s, ok := m["s"].(string); ok {
				m["s"] = addrRE.ReplaceAllString(s, "0xADDR")
			}
			if s, ok := m["w"].(string); ok {
				m["w"] = addrRE.ReplaceAllString(s, "0xADDR")
			}
		}
		return v
	}
	if o.Res != nil {
		o.Res["v"] = scrub(o.Res["v"])
	}
	if view := o.View; view != nil {
		o.View = func() any { return scrub(view()) }
	}
	return o
}

// tgKinds: one kind per applicable (entry, option set, class).
func tgKinds(entries []tgEntry, isPretty bool) []Kind {
	var ks []Kind
	for ei := range entries {
		e := &entries[ei]
		for oi := range tgOptions {
			o := &tgOptions[oi]
			if (o.onlyFor == "pretty") != isPretty && o.onlyFor != "" {
				continue
			}
			if isPretty && o.sizes {
				continue
			}
			for _, c := range tgClassOrder {
				if o.noSort && tgUnordered[c] {
					continue
				}
				data := tgClasses[c]
				run := func(inst any) Out { return e.run(inst, o, data) }
				if o.name == "NoReflect" {
					// without reflection a struct is written with fmt's %v, which prints pointer members as addresses: not
					// part of the behaviour (they differ from process to process), so the projection blanks them
					run = func(inst any) Out { return scrubAddresses(e.run(inst, o, data)) }
				}
				ks = append(ks, Kind{Name: e.name + "|" + o.name + "|" + c, API: e.api, Run: run})
			}
		}
	}
	return ks
}

func init() {
	families = append(families,
		Family{Name: "oj.Writer(options)", Named: true, New: func() any { return &oj.Writer{} }, Kinds: tgKinds(tgOjEntries(), false)},
		Family{Name: "sen.Writer(options)", Named: true, New: func() any { return &sen.Writer{} }, Kinds: tgKinds(tgSenEntries(), false)},
		Family{Name: "pretty.Writer(options)", Named: true, New: func() any { return &pretty.Writer{} }, Kinds: tgKinds(tgPrettyEntries(), true)},
	)
}
