package main

// Round-5 families.
//
// OWNED instances: an instance the caller created and configured behaves like a private one whatever the package-level
// functions do in between - also when the caller PASSES it to a package-level function as an argument (the library must
// not keep, pool or reset what the caller passed).  The kinds of these families never touch the options of the instance:
// it is configured once in New(), so a reset by the library stays visible.
//
// RE-ENTRANCY: inside the callback / handler / MarshalJSON of a pooled call A a pooled call B is made, then A continues;
// the reference (Kind.Ref) is A with a PRIVATE outer instance.

import (
	"bytes"
	"fmt"
	"io"
	"strings"

	"github.com/ohler55/ojg"
	"github.com/ohler55/ojg/alt"
	"github.com/ohler55/ojg/oj"
	"github.com/ohler55/ojg/pretty"
	"github.com/ohler55/ojg/sen"
)

var customOpt = ojg.Options{Sort: true, Indent: 3, OmitNil: true, KeyExact: true, CreateKey: "^", HTMLUnsafe: false,
	InitSize: 256, WriteLimit: 1024, TimeFormat: "second", BytesAs: ojg.BytesAsArray}

var ownData = map[string]any{"b": []any{1, nil, "<x>", []byte{1, 2}}, "a": map[string]any{"nil": nil, "k": &tagged{A: 1, B: "b"}}}

func optText(o ojg.Options) string {
	return fmt.Sprintf("%v/%v/%v/%v/%v/%q/%v/%v/%v/%q/%v", o.Sort, o.Indent, o.Tab, o.OmitNil, o.KeyExact, o.CreateKey, o.HTMLUnsafe, o.UseTags,
		o.Color, o.TimeFormat, o.BytesAs)
}

func strOut(s string, err error) Out { return Out{Err: err, Res: outRes(s, nil, err, false)} }

func pooledWriterCalls() []Kind {
	k := func(name string, f func() (string, error)) Kind {
		return Kind{Name: name, API: name, Run: func(any) Out {
			s, err := f()
			return strOut(s, err)
		}}
	}
	return []Kind{
		k("oj.JSON()", func() (string, error) { return oj.JSON(wData), nil }),
		k("oj.JSON(long)", func() (string, error) { return oj.JSON(wLong), nil }),
		k("oj.Write()", func() (string, error) {
			var b bytes.Buffer
			err := oj.Write(&b, wData)
			return b.String(), err
		}),
		k("oj.Marshal()", func() (string, error) {
			b, err := oj.Marshal(wData)
			return string(b), err
		}),
		k("oj.JSON(2)", func() (string, error) { return oj.JSON(wData, 2), nil }),
		k("sen.String()", func() (string, error) { return sen.String(wData), nil }),
		k("sen.Bytes()", func() (string, error) { return string(sen.Bytes(wData)), nil }),
		k("sen.Write()", func() (string, error) {
			var b bytes.Buffer
			err := sen.Write(&b, wData)
			return b.String(), err
		}),
		k("sen.String(2)", func() (string, error) { return sen.String(wData, 2), nil }),
	}
}

func ownedOjWriter() []Kind {
	w := func(i any) *oj.Writer { return i.(*oj.Writer) }
	ks := []Kind{
		{Name: "direct.JSON", API: "oj.Writer.JSON", Run: func(i any) Out { return strOut(w(i).JSON(ownData), nil) }},
		{Name: "direct.Write", API: "oj.Writer.Write", Run: func(i any) Out {
			var b bytes.Buffer
			err := w(i).Write(&b, ownData)
			return strOut(b.String(), err)
		}},
		{Name: "direct.options", API: "oj.Writer.Options", Run: func(i any) Out { return strOut(optText(w(i).Options), nil) }},
		{Name: "arg:oj.JSON", API: "oj.JSON(data, *Writer)", Run: func(i any) Out { return strOut(oj.JSON(ownData, w(i)), nil) }},
		{Name: "arg:oj.Write", API: "oj.Write(w, data, *Writer)", Run: func(i any) Out {
			var b bytes.Buffer
			err := oj.Write(&b, ownData, w(i))
			return strOut(b.String(), err)
		}},
		{Name: "arg:oj.Write(fail)", API: "oj.Write(w, data, *Writer)", Run: func(i any) Out {
			err := oj.Write(&failW{}, ownData, w(i))
			return strOut("", err)
		}},
		{Name: "arg:oj.JSON(panic)", API: "oj.JSON(data, *Writer)", Run: func(i any) Out { return strOut(oj.JSON([]any{panicM{}}, w(i)), nil) }},
	}
	return append(ks, pooledWriterCalls()...)
}

func ownedSenWriter() []Kind {
	w := func(i any) *sen.Writer { return i.(*sen.Writer) }
	ks := []Kind{
		{Name: "direct.SEN", API: "sen.Writer.SEN", Run: func(i any) Out { return strOut(w(i).SEN(ownData), nil) }},
		{Name: "direct.Write", API: "sen.Writer.Write", Run: func(i any) Out {
			var b bytes.Buffer
			err := w(i).Write(&b, ownData)
			return strOut(b.String(), err)
		}},
		{Name: "direct.options", API: "sen.Writer.Options", Run: func(i any) Out { return strOut(optText(w(i).Options), nil) }},
		{Name: "arg:sen.String", API: "sen.String(data, *Writer)", Run: func(i any) Out { return strOut(sen.String(ownData, w(i)), nil) }},
		{Name: "arg:sen.Bytes", API: "sen.Bytes(data, *Writer)", Exempt: "buf", Run: func(i any) Out {
			return strOut(string(sen.Bytes(ownData, w(i))), nil)
		}},
		{Name: "arg:sen.Write", API: "sen.Write(w, data, *Writer)", Run: func(i any) Out {
			var b bytes.Buffer
			err := sen.Write(&b, ownData, w(i))
			return strOut(b.String(), err)
		}},
		{Name: "arg:sen.Write(fail)", API: "sen.Write(w, data, *Writer)", Run: func(i any) Out {
			return strOut("", sen.Write(&failW{}, ownData, w(i)))
		}},
		{Name: "arg:sen.String(panic)", API: "sen.String(data, *Writer)", Run: func(i any) Out {
			return strOut(sen.String([]any{panicM{}}, w(i)), nil)
		}},
	}
	return append(ks, pooledWriterCalls()...)
}

// ownedOptions: the caller's *ojg.Options passed to every function that takes one; it is never written by the library.
func ownedOptions() []Kind {
	o := func(i any) *ojg.Options { return i.(*ojg.Options) }
	ks := []Kind{
		{Name: "direct.options", API: "ojg.Options", Run: func(i any) Out { return strOut(optText(*o(i)), nil) }},
		{Name: "arg:oj.JSON", API: "oj.JSON(data, *Options)", Run: func(i any) Out { return strOut(oj.JSON(ownData, o(i)), nil) }},
		{Name: "arg:oj.Marshal", API: "oj.Marshal(data, *Options)", Run: func(i any) Out {
			b, err := oj.Marshal(ownData, o(i))
			return strOut(string(b), err)
		}},
		{Name: "arg:oj.Write", API: "oj.Write(w, data, *Options)", Run: func(i any) Out {
			var b bytes.Buffer
			err := oj.Write(&b, ownData, o(i))
			return strOut(b.String(), err)
		}},
		{Name: "arg:sen.String", API: "sen.String(data, *Options)", Run: func(i any) Out { return strOut(sen.String(ownData, o(i)), nil) }},
		{Name: "arg:sen.Write", API: "sen.Write(w, data, *Options)", Run: func(i any) Out {
			var b bytes.Buffer
			err := sen.Write(&b, ownData, o(i))
			return strOut(b.String(), err)
		}},
		{Name: "arg:pretty.JSON", API: "pretty.JSON(data, *Options)", Run: func(i any) Out { return strOut(pretty.JSON(ownData, o(i)), nil) }},
		{Name: "arg:pretty.SEN", API: "pretty.SEN(data, *Options)", Run: func(i any) Out { return strOut(pretty.SEN(ownData, o(i), 40), nil) }},
		{Name: "arg:alt.Decompose", API: "alt.Decompose(data, *Options)", Run: func(i any) Out {
			return strOut(sen.String(alt.Decompose(ownData, o(i)), &ojg.Options{Sort: true}), nil)
		}},
	}
	return append(ks, pooledWriterCalls()...)
}

// ownedRecomposer: the caller's *alt.Recomposer passed to oj.Unmarshal / sen.Unmarshal.
func ownedRecomposer() []Kind {
	r := func(i any) *alt.Recomposer { return i.(*alt.Recomposer) }
	src := `{"^":"tagged","A":3,"B":"x","C":[1,2]}`
	show := func(v any, err error) Out { return strOut(fmt.Sprintf("%+v", v), err) }
	return []Kind{
		{Name: "direct.Recompose", API: "alt.Recomposer.Recompose", Run: func(i any) Out {
			v, err := r(i).Recompose(oj.MustParseString(src))
			return show(v, err)
		}},
		{Name: "arg:oj.Unmarshal", API: "oj.Unmarshal(data, vp, *Recomposer)", Run: func(i any) Out {
			var t tagged
			err := oj.Unmarshal([]byte(src), &t, r(i))
			return show(t, err)
		}},
		{Name: "arg:sen.Unmarshal", API: "sen.Unmarshal(data, vp, *Recomposer)", Run: func(i any) Out {
			var t tagged
			err := sen.Unmarshal([]byte(src), &t, r(i))
			return show(t, err)
		}},
		{Name: "arg:oj.Unmarshal(bad)", API: "oj.Unmarshal(data, vp, *Recomposer)", Run: func(i any) Out {
			var t tagged
			err := oj.Unmarshal([]byte(`{"A":[}`), &t, r(i))
			return show(t, err)
		}},
		{Name: "default:oj.Unmarshal", API: "oj.Unmarshal(data, vp)", Run: func(any) Out {
			var m map[string]any
			err := oj.Unmarshal([]byte(`{"x":1}`), &m)
			return show(m, err)
		}},
		{Name: "oj.Parse()", API: "oj.Parse", Run: func(any) Out {
			v, err := oj.Parse([]byte(dValid))
			return show(v, err)
		}},
	}
}

// ---- re-entrancy ---------------------------------------------------------------------------------------------------
type innerCall struct {
	name string
	run  func() string
}

func innerCalls() []innerCall {
	p := func(v any, err error) string { return fmt.Sprintf("%v|%v", v, err != nil) }
	return []innerCall{
		{"sen.Parse", func() string { return p(sen.Parse([]byte(`[1 {a:b}]`))) }},
		{"sen.ParseReader", func() string { return p(sen.ParseReader(strings.NewReader(`{x:[1 2]}`))) }},
		{"sen.MustParse", func() string { return fmt.Sprint(sen.MustParse([]byte(`abc`))) }},
		{"sen.Parse(bad)", func() string { return p(sen.Parse([]byte(`[1 }`))) }},
		{"oj.Parse", func() string { return p(oj.Parse([]byte(`{"a":[1,2]}`))) }},
		{"oj.Load", func() string { return p(oj.Load(strings.NewReader(`[true,null]`))) }},
		{"oj.ParseString(bad)", func() string { return p(oj.ParseString(`[1,}`)) }},
		{"oj.JSON", func() string { return oj.JSON(wData) }},
		{"sen.String", func() string { return sen.String(wData) }},
	}
}

type outerParse struct {
	name    string
	pooled  func(b []byte, cb any) (any, error)
	private func(b []byte, cb any) (any, error)
	doc     string
}

func outerParses() []outerParse {
	return []outerParse{
		{"sen.Parse", func(b []byte, cb any) (any, error) { return sen.Parse(b, cb) },
			func(b []byte, cb any) (any, error) { return (&sen.Parser{}).Parse(b, cb) }, `{a:1} [2 {b:3}] "s" 4`},
		{"sen.ParseReader", func(b []byte, cb any) (any, error) { return sen.ParseReader(bytes.NewReader(b), cb) },
			func(b []byte, cb any) (any, error) { return (&sen.Parser{}).ParseReader(bytes.NewReader(b), cb) }, `{a:1} [2 {b:3}] "s" 4`},
		{"oj.Parse", func(b []byte, cb any) (any, error) { return oj.Parse(b, cb) },
			func(b []byte, cb any) (any, error) { return (&oj.Parser{}).Parse(b, cb) }, dMulti},
		{"oj.Load", func(b []byte, cb any) (any, error) { return oj.Load(bytes.NewReader(b), cb) },
			func(b []byte, cb any) (any, error) { return (&oj.Parser{}).ParseReader(bytes.NewReader(b), cb) }, dMulti},
	}
}

// reenterParseKinds: pooled outer call whose callback makes a pooled inner call on the k-th document (k = 1, 2).
func reenterParseKinds(outerPrefix string) []Kind {
	var ks []Kind
	for _, o := range outerParses() {
		if !strings.HasPrefix(o.name, outerPrefix) {
			continue
		}
		for _, in := range innerCalls() {
			for _, at := range []int{1, 2} {
				o, in, at := o, in, at
				run := func(call func(b []byte, cb any) (any, error)) Out {
					b := []byte(o.doc)
					sink := []any{}
					inner := ""
					v, err := call(b, func(x any) bool {
						sink = append(sink, x)
						if len(sink) == at {
							inner = in.run()
						}
						return true
					})
					res := parseRes(v, err, &sink)
					res["v"] = map[string]any{"t": "reenter", "outer": res["v"], "inner": inner}
					return Out{Err: err, Res: res}
				}
				ks = append(ks, Kind{Name: fmt.Sprintf("reenter:%s@%d:%s", o.name, at, in.name), API: o.name + " (callback calls " + in.name + ")",
					Run: func(any) Out { return run(o.pooled) }, Ref: func() Out { return run(o.private) }})
			}
		}
	}
	return ks
}

// reM: a value whose MarshalJSON makes a pooled writer call while the outer pooled writer call is in progress.
type reM struct {
	inner func() string
}

func (r reM) MarshalJSON() ([]byte, error) {
	return []byte(`"` + fmt.Sprint(len(r.inner())) + `"`), nil
}

func reenterWriterKinds(pkg string) []Kind {
	inners := []innerCall{
		{"oj.JSON", func() string { return oj.JSON(wLong) }},
		{"oj.Marshal", func() string { b, _ := oj.Marshal(wLong); return string(b) }},
		{"oj.Write", func() string { var b bytes.Buffer; _ = oj.Write(&b, wLong); return b.String() }},
		{"sen.String", func() string { return sen.String(wLong) }},
		{"sen.Bytes", func() string { return string(sen.Bytes(wLong)) }},
		{"sen.Write", func() string { var b bytes.Buffer; _ = sen.Write(&b, wLong); return b.String() }},
		{"oj.Parse", func() string { v, _ := oj.Parse([]byte(dValid)); return fmt.Sprint(v) }},
	}
	type outer struct {
		name    string
		pooled  func(v any) (string, error)
		private func(v any) (string, error)
	}
	outers := []outer{
		{"oj.JSON", func(v any) (string, error) { return oj.JSON(v), nil },
			func(v any) (string, error) { return (&oj.Writer{Options: oj.DefaultOptions}).JSON(v), nil }},
		{"oj.Marshal", func(v any) (string, error) { b, err := oj.Marshal(v); return string(b), err },
			func(v any) (string, error) {
				b, err := oj.Marshal(v, &oj.Writer{Options: ojg.GoOptions})
				return string(b), err
			}},
		{"oj.Write", func(v any) (string, error) { var b bytes.Buffer; err := oj.Write(&b, v); return b.String(), err },
			func(v any) (string, error) {
				var b bytes.Buffer
				err := (&oj.Writer{Options: oj.DefaultOptions}).Write(&b, v)
				return b.String(), err
			}},
		{"sen.String", func(v any) (string, error) { return sen.String(v), nil },
			func(v any) (string, error) { return (&sen.Writer{Options: sen.DefaultOptions}).SEN(v), nil }},
		{"sen.Bytes", func(v any) (string, error) { return string(sen.Bytes(v)), nil },
			func(v any) (string, error) { return string((&sen.Writer{Options: sen.DefaultOptions}).MustSEN(v)), nil }},
		{"sen.Write", func(v any) (string, error) { var b bytes.Buffer; err := sen.Write(&b, v); return b.String(), err },
			func(v any) (string, error) {
				var b bytes.Buffer
				err := (&sen.Writer{Options: sen.DefaultOptions}).Write(&b, v)
				return b.String(), err
			}},
	}
	var ks []Kind
	for _, o := range outers {
		if !strings.HasPrefix(o.name, pkg) {
			continue
		}
		for _, in := range inners {
			o, in := o, in
			val := func() any { return []any{"before", reM{inner: in.run}, "after", wData} }
			ks = append(ks, Kind{Name: "reenter:" + o.name + ":" + in.name, API: o.name + " (MarshalJSON calls " + in.name + ")",
				Run: func(any) Out { return strOut(o.pooled(val())) }, Ref: func() Out { return strOut(o.private(val())) }})
		}
	}
	return ks
}

// handler / token function re-entrancy on instances: the instance is private, the nested calls are pooled.
type parsingHandler struct {
	recHandler
	nested []string
}

func (h *parsingHandler) String(s string) {
	h.recHandler.String(s)
	v, err := sen.Parse([]byte(s)) // a handler that parses its string argument
	w, err2 := oj.Parse([]byte(`["` + s + `"]`))
	h.nested = append(h.nested, fmt.Sprint(v, err != nil, w, err2 != nil))
}

func handlerReenterKind(prefix string, parse func(inst any, b []byte, h oj.TokenHandler) error) Kind {
	return Kind{Name: "handler_reenter", API: prefix + "Parse (handler calls sen.Parse, oj.Parse)", Run: func(inst any) Out {
		h := &parsingHandler{}
		b := []byte(`["[1 2]",{"k":"{a:b}"},"x"]`)
		err := parse(inst, b, h)
		res := errRes(err, map[string]any{"t": "nested", "ev": h.view(), "n": strings.Join(h.nested, ";")})
		return Out{Err: err, Res: res, Scribble: scribbler(b)}
	}}
}

func tokenFuncReenterKind() Kind {
	return Kind{Name: "tokenfunc_reenter", API: "sen.Parser.Parse (TokenFunc calls sen.Parse, sen.String)", Run: func(inst any) Out {
		p := inst.(*sen.Parser)
		p.Reuse = false
		p.AddTokenFunc("sub", func(args ...any) any {
			v, _ := sen.Parse([]byte(`{nested:[1 2]}`))
			return []any{v, sen.String(args), len(args)}
		})
		b := []byte(`[sub(1 "a") {k:sub()} 3]`)
		v, err := p.Parse(b)
		return Out{Err: err, Res: parseRes(v, err, nil), View: func() any { return held(v, err, nil) }, Scribble: scribbler(b)}
	}}
}

var _ io.Reader = (*failReader)(nil)

func init() {
	custom := func() ojg.Options { return customOpt }
	rec := func() any {
		r, err := alt.NewRecomposer("^", map[any]alt.RecomposeFunc{&tagged{}: nil})
		if err != nil {
			panic(err)
		}
		return r
	}
	families = append(families,
		Family{Name: "oj.Writer(owned)", FreshPools: true, New: func() any { return &oj.Writer{Options: custom()} }, Kinds: ownedOjWriter()},
		Family{Name: "sen.Writer(owned)", FreshPools: true, New: func() any { return &sen.Writer{Options: custom()} }, Kinds: ownedSenWriter()},
		Family{Name: "ojg.Options(owned)", FreshPools: true, New: func() any { o := custom(); return &o }, Kinds: ownedOptions()},
		Family{Name: "alt.Recomposer(owned)", FreshPools: true, New: rec, Kinds: ownedRecomposer()},
	)
	for i := range families {
		f := &families[i]
		switch f.Name {
		case "oj.parserPool":
			f.Kinds = append(f.Kinds, reenterParseKinds("oj.")...)
		case "sen.parserPool":
			f.Kinds = append(f.Kinds, reenterParseKinds("sen.")...)
		case "oj.writerPools":
			f.Kinds = append(f.Kinds, reenterWriterKinds("oj.")...)
		case "sen.writerPool":
			f.Kinds = append(f.Kinds, reenterWriterKinds("sen.")...)
		case "oj.Tokenizer":
			f.Kinds = append(f.Kinds, handlerReenterKind("oj.Tokenizer.", func(i any, b []byte, h oj.TokenHandler) error {
				t := i.(*oj.Tokenizer)
				t.OnlyOne = true
				return t.Parse(b, h)
			}))
		case "sen.Tokenizer":
			f.Kinds = append(f.Kinds, handlerReenterKind("sen.Tokenizer.", func(i any, b []byte, h oj.TokenHandler) error {
				t := i.(*sen.Tokenizer)
				t.OnlyOne = true
				return t.Parse(b, h)
			}))
		case "sen.Parser":
			f.Kinds = append(f.Kinds, tokenFuncReenterKind())
		}
	}
}
