package main

// Retained-result family (spec/ReuseRetain.tla).
//
// Law (Reuse.tla, Stable): what a call handed to its caller - here: everything reachable from the TARGET of an Unmarshal /
// Recompose call, including the values user code was handed on the way (alt.AttrSetter.SetAttr arguments, the argument of a
// RecomposeFunc / RecomposeAnyFunc) and kept - is unchanged by every later call of the family, whatever document and
// target that later call has.  None of these entry points is a documented exception (Reuse is off, no buffer is returned).
//
// spec/ReuseRetain.tla owns WHICH histories are run (entry x target x document, applicability of a *Recomposer argument);
// this file says HOW a kind  "<entry>|<target>|<doc>"  is executed.  The family is "named" (see toggle.go).

import (
	"encoding/json"
	"fmt"

	"github.com/ohler55/ojg/alt"
	"github.com/ohler55/ojg/gen"
	"github.com/ohler55/ojg/oj"
	"github.com/ohler55/ojg/sen"
)

type rtInst struct {
	oj  *oj.Parser
	sen *sen.Parser
}

type rtSub struct {
	Name  string
	Attrs map[string]any
	Items []any
}

type rtT struct {
	Name  string
	Meta  map[string]any
	List  []any
	Any   any
	Sub   *rtSub
	Subs  []rtSub
	ByKey map[string]*rtSub
	Label gen.String // gen scalars are the only gen.Node members alt.Recompose fills (gen.Object / gen.Array / gen.Node members
	Count gen.Int    // are refused with an error on the unchanged tree: outside C07)
}

// rtHooks: user hooks below the top level: a member filled by a composer function, AttrSetter members.
type rtHooks struct {
	Name string
	Hold any
	K    *keeper
	Ks   []*keeper
}

// rtAnyKept is built by a RecomposeAnyFunc that keeps whatever it is given.
type rtAnyKept struct {
	Arg any
}

const (
	rtDocA = `{"name":"first","meta":{"a":{"b":1},"list":[{"c":2}]},"list":[1,{"x":{"y":2}},"s"],"any":{"deep":{"k":[1,2]}},` +
		`"sub":{"name":"s1","attrs":{"p":{"q":1}},"items":[{"i":1}]},"subs":[{"name":"s2","attrs":{"r":2}}],` +
		`"byKey":{"k1":{"name":"s3","attrs":{"z":{"w":0}}}},"label":"la","count":1}`
	rtDocB = `{"name":"second","meta":{"x":{"y":{"z":3}},"list":[]},"list":[{"q":true},2],"any":{"other":{"r":{"s":"abc"}}},` +
		`"sub":{"name":"t1","attrs":{"u":[1]},"items":[]},"subs":[{"name":"t2","attrs":{"v":{"w":1}}},{"name":"t3","attrs":{}}],` +
		`"byKey":{"k2":{"name":"t4","attrs":{"h":{"i":{"j":1}}}}},"label":"lb","count":2}`
	rtDocC = `{"name":"third-with-a-much-longer-name-0123456789012345678901234567890123456789","meta":{"only":"` +
		`a-long-string-value-0123456789012345678901234567890123456789"},"list":[[[{"d":{"e":{"f":1}}}]]],"any":[{"l":{"m":1}}],` +
		`"sub":{"name":"","attrs":{"p":{"q":2,"r":{"s":3}}},"items":[{"i":2},{"j":{"k":3}}]},"subs":[],"byKey":{},"label":"","count":0}`
)

var rtDocs = map[string]string{"A": rtDocA, "B": rtDocB, "C": rtDocC}

func rtRecomposer() *alt.Recomposer {
	r, err := alt.NewRecomposer("^",
		map[any]alt.RecomposeFunc{&kept{}: func(m map[string]any) (any, error) {
			return &kept{ID: len(m), Arg: m}, nil // keeps the map it was given
		}},
		map[any]alt.RecomposeAnyFunc{&rtAnyKept{}: func(v any) (any, error) {
			return &rtAnyKept{Arg: v}, nil // keeps whatever it was given
		}})
	if err != nil {
		panic(err)
	}
	return r
}

// dump is the projection of a retained Go value: its encoding/json text (follows pointers, sorts map keys).
func dump(v any) any {
	b, err := json.Marshal(v)
	if err != nil {
		return map[string]any{"t": "out", "s": "unprintable: " + err.Error(), "w": fmt.Sprintf("%T", v)}
	}
	return map[string]any{"t": "out", "s": string(b), "w": fmt.Sprintf("%T", v)}
}

type rtTarget struct {
	name  string
	hooks bool                    // needs a *alt.Recomposer argument
	wrap  func(doc string) string // the input text for this target
	fresh func() (vp any, view func() any)
}

func rtTargets() []rtTarget {
	id := func(d string) string { return d }
	return []rtTarget{
		{"struct", false, id, func() (any, func() any) { t := &rtT{}; return t, func() any { return dump(t) } }},
		{"map", false, id, func() (any, func() any) { var m map[string]any; return &m, func() any { return dump(m) } }},
		{"slice", false, func(d string) string { return `[` + d + `,{"w":` + d + `},[` + d + `]]` },
			func() (any, func() any) { var s []any; return &s, func() any { return dump(s) } }},
		{"any", false, id, func() (any, func() any) { var a any; return &a, func() any { return dump(a) } }},
		{"typedmap", false, func(d string) string { return `{"one":` + d + `,"two":` + d + `}` },
			func() (any, func() any) { var m map[string]*rtT; return &m, func() any { return dump(m) } }},
		{"attrsetter", false, id, func() (any, func() any) { k := &keeper{}; return k, func() any { return dump(k.kept) } }},
		{"composer", true, func(d string) string { return `{"^":"kept",` + d[1:] },
			func() (any, func() any) {
				var out any
				return &out, func() any {
					if k, ok := out.(*kept); ok && k != nil {
						return dump(k.Arg)
					}
					return dump(fmt.Sprintf("%T", out))
				}
			}},
		// a struct target whose type has a composer function: the function is handed the parsed map
		{"composer-typed", true, id, func() (any, func() any) { k := &kept{}; return k, func() any { return dump(k.Arg) } }},
		// a struct target whose type has an "any" composer: called when the input is not an object; it keeps the []any
		{"anycomposer", true, func(d string) string { return `[` + d + `,{"w":` + d + `}]` },
			func() (any, func() any) { k := &rtAnyKept{}; return k, func() any { return dump(k.Arg) } }},
		{"hooks-in-struct", true, func(d string) string {
			return `{"name":"h","hold":{"^":"kept",` + d[1:] + `,"k":` + d + `,"ks":[` + d + `,{"z":` + d + `}]}`
		}, func() (any, func() any) {
			h := &rtHooks{}
			return h, func() any {
				var hold any = fmt.Sprintf("%T", h.Hold)
				if k, ok := h.Hold.(*kept); ok && k != nil {
					hold = k.Arg
				}
				ks := []any{}
				for _, k := range h.Ks {
					if k != nil {
						ks = append(ks, k.kept)
					}
				}
				var k any
				if h.K != nil {
					k = h.K.kept
				}
				return dump([]any{h.Name, hold, k, ks})
			}
		}},
	}
}

type rtEntry struct {
	name  string
	api   string
	recOK bool // accepts a *alt.Recomposer
	call  func(inst *rtInst, b []byte, vp any, r *alt.Recomposer) error
}

func rtEntries() []rtEntry {
	recompose := func(v any, vp any, r *alt.Recomposer) (err error) {
		if r != nil {
			_, err = r.Recompose(v, vp)
		} else {
			_, err = alt.Recompose(v, vp)
		}
		return
	}
	return []rtEntry{
		{"oj.Unmarshal", "oj.Unmarshal", true, func(_ *rtInst, b []byte, vp any, r *alt.Recomposer) error {
			if r != nil {
				return oj.Unmarshal(b, vp, r)
			}
			return oj.Unmarshal(b, vp)
		}},
		{"sen.Unmarshal", "sen.Unmarshal", true, func(_ *rtInst, b []byte, vp any, r *alt.Recomposer) error {
			if r != nil {
				return sen.Unmarshal(b, vp, r)
			}
			return sen.Unmarshal(b, vp)
		}},
		{"oj.Parser.Unmarshal", "oj.Parser.Unmarshal", false, func(i *rtInst, b []byte, vp any, _ *alt.Recomposer) error {
			i.oj.Reuse = false
			return i.oj.Unmarshal(b, vp)
		}},
		{"sen.Parser.Unmarshal", "sen.Parser.Unmarshal", false, func(i *rtInst, b []byte, vp any, _ *alt.Recomposer) error {
			i.sen.Reuse = false
			return i.sen.Unmarshal(b, vp)
		}},
		{"oj.Parse+Recompose", "oj.Parse, alt.Recompose", true, func(_ *rtInst, b []byte, vp any, r *alt.Recomposer) error {
			v, err := oj.Parse(b)
			if err != nil {
				return err
			}
			return recompose(v, vp, r)
		}},
		{"sen.Parse+Recompose", "sen.Parse, alt.Recompose", true, func(_ *rtInst, b []byte, vp any, r *alt.Recomposer) error {
			v, err := sen.Parse(b)
			if err != nil {
				return err
			}
			return recompose(v, vp, r)
		}},
		{"oj.Parser.Parse+Recompose", "oj.Parser.Parse, alt.Recompose", true, func(i *rtInst, b []byte, vp any, r *alt.Recomposer) error {
			i.oj.Reuse = false
			v, err := i.oj.Parse(b)
			if err != nil {
				return err
			}
			return recompose(v, vp, r)
		}},
		{"sen.Parser.Parse+Recompose", "sen.Parser.Parse, alt.Recompose", true, func(i *rtInst, b []byte, vp any, r *alt.Recomposer) error {
			i.sen.Reuse = false
			v, err := i.sen.Parse(b)
			if err != nil {
				return err
			}
			return recompose(v, vp, r)
		}},
	}
}

func rtKinds() []Kind {
	var ks []Kind
	entries, targets := rtEntries(), rtTargets()
	for ei := range entries {
		e := &entries[ei]
		for ti := range targets {
			t := &targets[ti]
			if t.hooks && !e.recOK {
				continue
			}
			for _, dn := range []string{"A", "B", "C"} {
				doc := t.wrap(rtDocs[dn])
				ks = append(ks, Kind{Name: e.name + "|" + t.name + "|" + dn, API: e.api, Run: func(inst any) Out {
					b := []byte(doc)
					vp, view := t.fresh()
					var r *alt.Recomposer
					if t.hooks {
						r = rtRecomposer()
					}
					err := e.call(inst.(*rtInst), b, vp, r)
					res := parseRes(nil, err, nil)
					res["v"] = view()
					return Out{Err: err, Res: res, View: view, Scribble: scribbler(b)}
				}})
			}
		}
	}
	return ks
}

func init() {
	families = append(families, Family{Name: "Unmarshal(retained)", Named: true, FreshPools: true,
		New: func() any { return &rtInst{oj: &oj.Parser{}, sen: &sen.Parser{}} }, Kinds: rtKinds()})
}
