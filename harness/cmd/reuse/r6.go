package main

// Final-round kinds.
//
// planKinds: same instance, same struct TYPE and value, ONE plan-selecting option changed between calls (OmitEmpty selects
// another struct-info map; UseTags / KeyExact / NestEmbed / OmitNil another field plan): a Writer that remembers the plan
// of the last struct type must key that memo by the options too.
//
// keeperKinds: Unmarshal targets that RETAIN what they are given (an alt.AttrSetter that stores the values it is handed, a
// composer function that keeps its argument): under the Stable law those retained nested maps must not change when the
// next Unmarshal runs.

import (
	"fmt"

	"github.com/ohler55/ojg"
	"github.com/ohler55/ojg/alt"
	"github.com/ohler55/ojg/oj"
	"github.com/ohler55/ojg/pretty"
	"github.com/ohler55/ojg/sen"
)

type planT struct {
	Alpha int    `json:"a_tag"`
	Empty string `json:"empty_tag,omitempty"`
	Zero  int
	Nil   *int
	List  []int
	inner
	Sub planSub
}

type planSub struct {
	X     int
	Blank string `json:"blank,omitempty"`
}

var planValue = &planT{Alpha: 1, inner: inner{In: 0}, Sub: planSub{X: 2}}

var planOptions = []struct {
	name string
	mod  func(o *ojg.Options)
}{
	{"base", func(o *ojg.Options) {}},
	{"OmitEmpty", func(o *ojg.Options) { o.OmitEmpty = true }},
	{"OmitNil", func(o *ojg.Options) { o.OmitNil = true }},
	{"UseTags", func(o *ojg.Options) { o.UseTags = true }},
	{"KeyExact", func(o *ojg.Options) { o.KeyExact = true }},
	{"NestEmbed", func(o *ojg.Options) { o.NestEmbed = true }},
	{"OmitEmpty+UseTags", func(o *ojg.Options) { o.OmitEmpty = true; o.UseTags = true }},
}

func planOpt(i int, indent int) ojg.Options {
	o := ojg.DefaultOptions
	o.Sort = true
	o.Indent = indent
	planOptions[i].mod(&o)
	return o
}

func planKindsOj() []Kind {
	var ks []Kind
	for i, po := range planOptions {
		i, po := i, po
		ks = append(ks, Kind{Name: "plan:" + po.name, API: "oj.Writer.JSON", Run: func(inst any) Out {
			w := inst.(*oj.Writer)
			w.Options = planOpt(i, 0)
			return strOut(w.JSON([]any{planValue, *planValue}), nil)
		}})
	}
	ks = append(ks, Kind{Name: "plan:OmitEmpty(indent)", API: "oj.Writer.JSON", Run: func(inst any) Out {
		w := inst.(*oj.Writer)
		w.Options = planOpt(1, 2)
		return strOut(w.JSON(planValue), nil)
	}}, Kind{Name: "plan:base(indent)", API: "oj.Writer.JSON", Run: func(inst any) Out {
		w := inst.(*oj.Writer)
		w.Options = planOpt(0, 2)
		return strOut(w.JSON(planValue), nil)
	}})
	return ks
}

func planKindsSen() []Kind {
	var ks []Kind
	for i, po := range planOptions {
		i, po := i, po
		ks = append(ks, Kind{Name: "plan:" + po.name, API: "sen.Writer.SEN", Run: func(inst any) Out {
			w := inst.(*sen.Writer)
			w.Options = planOpt(i, 0)
			return strOut(w.SEN([]any{planValue, *planValue}), nil)
		}})
	}
	ks = append(ks, Kind{Name: "plan:OmitEmpty(indent)", API: "sen.Writer.SEN", Run: func(inst any) Out {
		w := inst.(*sen.Writer)
		w.Options = planOpt(1, 2)
		return strOut(w.SEN(planValue), nil)
	}}, Kind{Name: "plan:base(indent)", API: "sen.Writer.SEN", Run: func(inst any) Out {
		w := inst.(*sen.Writer)
		w.Options = planOpt(0, 2)
		return strOut(w.SEN(planValue), nil)
	}})
	return ks
}

func planKindsPretty() []Kind {
	var ks []Kind
	for i, po := range planOptions {
		i, po := i, po
		ks = append(ks, Kind{Name: "plan:" + po.name, API: "pretty.Writer.Marshal", Run: func(inst any) Out {
			w := inst.(*pretty.Writer)
			ind, is, wl := w.Indent, w.InitSize, w.WriteLimit
			w.Options = planOpt(i, 0)
			w.Indent, w.InitSize, w.WriteLimit = ind, is, wl
			w.Width, w.MaxDepth, w.Align, w.SEN = 60, 3, false, i%2 == 1
			b, err := w.Marshal([]any{planValue, *planValue})
			return strOut(string(b), err)
		}})
	}
	return ks
}

// ---- keepers ---------------------------------------------------------------------------------------------------------
// keeper is an alt.AttrSetter that stores every value it is handed.
type keeper struct {
	kept map[string]any
}

func (k *keeper) SetAttr(attr string, val any) error {
	if k.kept == nil {
		k.kept = map[string]any{}
	}
	k.kept[attr] = val
	return nil
}

type kept struct {
	ID  int
	Arg map[string]any // the composer function keeps its argument here
}

const (
	keepDocA = `{"name":"first","meta":{"a":{"b":1},"list":[{"c":2}]},"n":1}`
	keepDocB = `{"name":"second","meta":{"x":{"y":{"z":3}},"list":[]},"other":{"k":"v"}}`
)

func keeperKinds() []Kind {
	newRec := func() *alt.Recomposer {
		r, err := alt.NewRecomposer("^", map[any]alt.RecomposeFunc{&kept{}: func(m map[string]any) (any, error) {
			return &kept{ID: len(m), Arg: m}, nil // keeps the map it was given
		}})
		if err != nil {
			panic(err)
		}
		return r
	}
	type um struct {
		name string
		call func(b []byte, vp any, r ...*alt.Recomposer) error
	}
	ums := []um{
		{"oj.Unmarshal", func(b []byte, vp any, r ...*alt.Recomposer) error { return oj.Unmarshal(b, vp, r...) }},
		{"sen.Unmarshal", func(b []byte, vp any, r ...*alt.Recomposer) error { return sen.Unmarshal(b, vp, r...) }},
	}
	var ks []Kind
	for _, u := range ums {
		for _, d := range []struct{ n, doc string }{{"A", keepDocA}, {"B", keepDocB}} {
			u, d := u, d
			ks = append(ks,
				Kind{Name: u.name + ":attrsetter:" + d.n, API: u.name + " (AttrSetter target keeps the values)", Run: func(any) Out {
					b := []byte(d.doc)
					k := &keeper{}
					err := u.call(b, k)
					view := func() any { return held(k.kept, nil, nil) }
					res := parseRes(nil, err, nil)
					res["v"] = view()
					return Out{Err: err, Res: res, View: view, Scribble: scribbler(b)}
				}},
				Kind{Name: u.name + ":composer:" + d.n, API: u.name + " (composer function keeps its argument)", Run: func(any) Out {
					b := []byte(`{"^":"kept",` + d.doc[1:])
					var out any
					err := u.call(b, &out, newRec())
					view := func() any {
						if k, ok := out.(*kept); ok && k != nil {
							return held(k.Arg, nil, nil)
						}
						return held(fmt.Sprintf("%T", out), nil, nil)
					}
					res := parseRes(nil, err, nil)
					res["v"] = view()
					return Out{Err: err, Res: res, View: view, Scribble: scribbler(b)}
				}},
				Kind{Name: u.name + ":any:" + d.n, API: u.name + " (*any target)", Run: func(any) Out {
					b := []byte(d.doc)
					var out any
					err := u.call(b, &out)
					view := func() any { return held(out, err, nil) }
					return Out{Err: err, Res: parseRes(out, err, nil), View: view, Scribble: scribbler(b)}
				}})
		}
	}
	return ks
}

func init() {
	for i := range families {
		f := &families[i]
		switch f.Name {
		case "oj.Writer":
			f.Kinds = append(planKindsOj(), f.Kinds...) // in front: inside the first 16 kinds of the triples
		case "sen.Writer":
			f.Kinds = append(planKindsSen(), f.Kinds...)
		case "pretty.Writer":
			f.Kinds = append(planKindsPretty(), f.Kinds...)
		case "oj.Writer(owned)":
			// owned writers keep their options; the plan kinds of the reused-writer families cover the toggling
		case "oj.parserPool", "sen.parserPool":
			f.Kinds = append(f.Kinds, keeperKinds()...)
		}
	}
}
