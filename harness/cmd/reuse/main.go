// Command reuse is the C07 driver: it replays call histories on ONE reused instance (or through the
// pooled package-level functions under GOMAXPROCS(1)) and records, per call, the result, the value
// re-inspected after the caller scribbled over its input buffer, and every earlier returned value
// re-inspected after the call.  It never decides anything: TLC (spec/TraceReuse.tla) compares the
// records with the fresh-instance references.  Sub-commands:
//
//	menu                      -> {"families":[{"name","pooled","kinds":[{"name","exempt","api"}]}]}
//	exec  -out DIR [-fam F]   stdin: ndjson {"h":[1-based kind indexes]} or {"f":family,"h":[kind names]}
//	                          stdout: trace ndjson, DIR/vals.json, DIR/fresh.json
//	proc  -fam F              stdin: ONE history {"f","h":[kind names]}; this process makes exactly these calls, each on a NEW
//	                          instance (emptied pools), before anything else has run in the process - no reference sweep.
//	                          stdout: {"ev":[{"k","r": logged result VALUE}]}  (judged against the references of another process)
//	shrink                    stdin: ndjson {"f","h":[names],"j":failing call (1-based),"p":producer or 0}
//	                          stdout: ndjson {"f","h":[names],"j","p"} (a shortest sub-history that still differs)
package main

import (
	"bufio"
	"encoding/json"
	"errors"
	"flag"
	"fmt"
	"os"
	"path/filepath"
	"runtime"
	"runtime/debug"
	"sort"
	"strings"

	"github.com/ohler55/ojg/gen"
	"github.com/ohler55/ojg/oj"
)

// Out is what one call hands back to the driver.
type Out struct {
	Err      error          // the error value handed to the caller (nil: none); kept and re-projected like every result
	Res      map[string]any // {c: ok|err|perr|panic, l, col, v: abstract value}
	View     func() any     // re-inspects the value(s) the caller still holds (nil: nothing held)
	Scribble func()         // the caller overwrites its input buffer (nil: no input buffer)
}

// Kind is one entry of a family's call menu: a call with fixed arguments and options.
type Kind struct {
	Name   string
	API    string // the entry point exercised
	Exempt string // "" | "reuse" | "buf": the documented exceptions of the property statement
	Run    func(inst any) Out
	// Ref, when set, computes the reference of this kind instead of a run on a fresh instance: the same call with the
	// OUTER instance private to the caller (re-entrancy kinds: a defect that shows inside one pooled call is also there on
	// an empty pool, so "fresh pool" is no reference for it).
	Ref func() Out
}

// Family is one instance type (or one pool) with its menu.
type Family struct {
	Name string
	// FreshPools: an instance family (New) whose kinds also call the pooled package-level functions: every history starts
	// with emptied pools AND a new instance, under GOMAXPROCS(1).
	FreshPools bool
	Pooled     bool
	// Named: the family only takes histories that name it ({"f": name, "h": [kind names]}); the histories are enumerated
	// by its own TLA+ module (ReuseToggle, ReuseRetain), not by the index histories over the generic menus.
	Named bool
	New   func() any
	Kinds []Kind
	index map[string]*Kind
}

var none = map[string]any{"t": "none"}

type interner struct {
	ids  map[string]int
	vals []json.RawMessage
}

// kindEnc re-encodes tagged values {t: kind, ...} as {kind[/keys]: ...}: the kind becomes the FIELD NAME.  TLC compares
// records field name by field name before it compares values, so two logged values of different kinds (a string where a
// number was expected, an error where a tree was expected - whatever a defective implementation hands out) compare
// unequal instead of raising a TLC evaluation error.  Records that carry the same field name always have the same shape.
func kindEnc(v any) any {
	switch t := v.(type) {
	case map[string]any:
		kind, tagged := t["t"].(string)
		rest := map[string]any{}
		keys := []string{}
		for k, x := range t {
			if tagged && k == "t" {
				continue
			}
			rest[k] = kindEnc(x)
			keys = append(keys, k)
		}
		if !tagged {
			return rest
		}
		sort.Strings(keys)
		switch {
		case len(keys) == 0:
			return map[string]any{kind: true}
		case len(keys) == 1 && keys[0] == "v":
			return map[string]any{kind: rest["v"]}
		}
		return map[string]any{kind + "/" + strings.Join(keys, "+"): rest}
	case []any:
		out := make([]any, len(t))
		for i, x := range t {
			out[i] = kindEnc(x)
		}
		return out
	case []int64:
		out := make([]any, len(t))
		for i, x := range t {
			out[i] = x
		}
		return out
	}
	return v
}

func (in *interner) id(v any) int {
	v = kindEnc(v)
	b, err := json.Marshal(v)
	if err != nil {
		panic(err)
	}
	if id, ok := in.ids[string(b)]; ok {
		return id
	}
	in.vals = append(in.vals, b)
	in.ids[string(b)] = len(in.vals)
	return len(in.vals)
}

func findFamily(name string) *Family {
	for i := range families {
		if families[i].Name == name {
			return &families[i]
		}
	}
	return nil
}

func (f *Family) kind(name string) *Kind {
	if f.index == nil {
		f.index = make(map[string]*Kind, len(f.Kinds))
		for i := range f.Kinds {
			f.index[f.Kinds[i].Name] = &f.Kinds[i]
		}
	}
	return f.index[name]
}

// freshPools empties every sync.Pool of the process (two collections: primary -> victim -> gone).
func freshPools() {
	runtime.GC()
	runtime.GC()
}

// runCall executes one kind on inst under recover.
func runCall(k *Kind, inst any) (o Out) {
	defer func() {
		if r := recover(); r != nil {
			cls := "panic"
			var perr error
			if e, ok := r.(error); ok {
				cls = "panic-error"
				perr = e // the Must* variants hand the error to the caller through the panic
			}
			o = Out{Err: perr, Res: map[string]any{"c": cls, "l": 0, "col": 0, "v": none}}
		}
	}()
	return k.Run(inst)
}

type event struct {
	K  string `json:"k"`
	X  string `json:"x"`
	R  int    `json:"r"`  // result as compared with the fresh instance (error by class and position)
	H  int    `json:"h"`  // everything handed to the caller, projected when it was handed out: {v, e}
	S  int    `json:"s"`  // the same, re-projected after the caller scribbled over its input
	RC []int  `json:"rc"` // what calls 1..j-1 handed out, re-projected after this call
}

// errProj projects an error VALUE the caller holds: its text, and what errors.As finds in it. It is evaluated
// again at every re-inspection, so an error object that a later call rewrites shows up.
func errProj(err error) any {
	if err == nil {
		return map[string]any{"t": "noerr"}
	}
	p := map[string]any{"t": "err", "msg": safeMsg(err), "as": "", "l": 0, "col": 0, "pmsg": ""}
	var pe *oj.ParseError
	var ge *gen.ParseError
	switch {
	case errors.As(err, &pe):
		p["as"], p["l"], p["col"], p["pmsg"] = "oj.ParseError", pe.Line, pe.Column, pe.Message
	case errors.As(err, &ge):
		p["as"], p["l"], p["col"], p["pmsg"] = "gen.ParseError", ge.Line, ge.Column, ge.Message
	}
	return p
}

func safeMsg(err error) (s string) {
	defer func() {
		if recover() != nil {
			s = "(Error() panicked)"
		}
	}()
	return err.Error()
}

// handed projects everything call o handed to the caller, as it is NOW.
func handed(o *Out) any {
	var v any
	if o.View != nil {
		v = safeView(o.View)
	} else {
		v = o.Res["v"] // strings and other immutable results
	}
	return map[string]any{"v": v, "e": errProj(o.Err)}
}

// replay runs one history on one instance and returns its events.
func replay(f *Family, names []string, in *interner) []event {
	var inst any
	if f.Pooled || f.FreshPools {
		freshPools()
	}
	if !f.Pooled {
		inst = f.New()
	}
	evs := make([]event, 0, len(names))
	outs := make([]*Out, 0, len(names)) // the driver keeps EVERY result of the history
	for _, n := range names {
		k := f.kind(n)
		if k == nil {
			fmt.Fprintf(os.Stderr, "unknown kind %s in family %s\n", n, f.Name)
			os.Exit(2)
		}
		o := runCall(k, inst)
		ev := event{K: k.Name, X: k.Exempt, R: in.id(o.Res), H: in.id(handed(&o)), RC: []int{}}
		if o.Scribble != nil {
			o.Scribble()
		}
		ev.S = in.id(handed(&o))
		for _, p := range outs { // re-project ALL earlier results after this call
			ev.RC = append(ev.RC, in.id(handed(p)))
		}
		oc := o
		outs = append(outs, &oc)
		evs = append(evs, ev)
	}
	return evs
}

func safeView(v func() any) (r any) {
	defer func() {
		if x := recover(); x != nil {
			r = map[string]any{"t": "unviewable"}
		}
	}()
	return v()
}

// fresh computes the fresh-instance reference of every kind (twice: a kind whose fresh result is not
// deterministic cannot be used as a reference and is an infrastructure error).
func fresh(in *interner, only string) map[string]map[string]int {
	res := map[string]map[string]int{}
	for i := range families {
		f := &families[i]
		if only != "" && f.Name != only {
			continue
		}
		m := map[string]int{}
		for j := range f.Kinds {
			k := &f.Kinds[j]
			var ids [2]int
			for t := 0; t < 2; t++ {
				if k.Ref != nil {
					freshPools()
					o := runCall(&Kind{Name: k.Name, Run: func(any) Out { return k.Ref() }}, nil)
					ids[t] = in.id(o.Res)
					continue
				}
				ev := replay(f, []string{k.Name}, in)
				ids[t] = ev[0].R
			}
			if ids[0] != ids[1] {
				fmt.Fprintf(os.Stderr, "fresh result of %s/%s is not deterministic\n", f.Name, k.Name)
				os.Exit(2)
			}
			m[k.Name] = ids[0]
		}
		res[f.Name] = m
	}
	return res
}

type histLine struct {
	F string            `json:"f"`
	H []json.RawMessage `json:"h"`
	J int               `json:"j"`
	P int               `json:"p"`
	W bool              `json:"w"` // wrap indexes beyond the family's menu (deep simulated histories)
	G string            `json:"g"` // "" all families, "inst" instance types only, "pool" pooled functions only
}

func namesOf(f *Family, h []json.RawMessage, wrap ...bool) ([]string, bool) {
	out := make([]string, len(h))
	for i, raw := range h {
		var s string
		if json.Unmarshal(raw, &s) == nil {
			out[i] = s
			continue
		}
		var n int
		if err := json.Unmarshal(raw, &n); err != nil {
			return nil, false
		}
		if len(wrap) > 0 && wrap[0] && n >= 1 {
			n = (n-1)%len(f.Kinds) + 1
		}
		if n < 1 || n > len(f.Kinds) {
			return nil, false // history uses an index beyond this family's menu
		}
		out[i] = f.Kinds[n-1].Name
	}
	return out, true
}

func cmdExec(args []string) {
	fs := flag.NewFlagSet("exec", flag.ExitOnError)
	out := fs.String("out", ".", "directory for vals.json and fresh.json")
	only := fs.String("fam", "", "restrict to one family")
	pooledMax := fs.Int("pooledmax", 0, "pooled families only take index histories up to this length (0 = all)")
	_ = fs.Parse(args)
	runtime.GOMAXPROCS(1)
	debug.SetGCPercent(400)
	in := &interner{ids: map[string]int{}}
	fr := fresh(in, *only)
	w := bufio.NewWriterSize(os.Stdout, 1<<20)
	defer w.Flush()
	sc := bufio.NewScanner(os.Stdin)
	sc.Buffer(make([]byte, 1<<20), 1<<26)
	enc := json.NewEncoder(w)
	nHist, nCalls, pairs := 0, 0, map[string]bool{}
	for sc.Scan() {
		if len(sc.Bytes()) == 0 {
			continue
		}
		var hl histLine
		if err := json.Unmarshal(sc.Bytes(), &hl); err != nil {
			fmt.Fprintln(os.Stderr, "bad history line:", err)
			os.Exit(2)
		}
		for i := range families {
			f := &families[i]
			if (hl.F != "" && hl.F != f.Name) || (*only != "" && *only != f.Name) {
				continue
			}
			if hl.F == "" && f.Named {
				continue
			}
			if hl.F == "" && f.Pooled && *pooledMax > 0 && len(hl.H) > *pooledMax {
				continue
			}
			if (hl.G == "inst" && f.Pooled) || (hl.G == "pool" && !f.Pooled) {
				continue
			}
			names, ok := namesOf(f, hl.H, hl.W)
			if !ok {
				continue
			}
			evs := replay(f, names, in)
			_ = enc.Encode(map[string]any{"f": f.Name, "ev": evs})
			nHist++
			nCalls += len(names)
			for i := 1; i < len(names); i++ {
				pairs[f.Name+"/"+names[i-1]+">"+names[i]] = true
			}
		}
	}
	writeJSON(filepath.Join(*out, "vals.json"), in.vals)
	writeJSON(filepath.Join(*out, "fresh.json"), fr)
	writeJSON(filepath.Join(*out, "stats.json"), map[string]int{"histories": nHist, "calls": nCalls, "pairs": len(pairs)})
}

func writeJSON(path string, v any) {
	b, err := json.Marshal(v)
	if err != nil {
		panic(err)
	}
	if err := os.WriteFile(path, b, 0o644); err != nil {
		panic(err)
	}
}

// differs replays names and says whether call j (1-based) deviates in the way the TLC verdict said:
// p == 0: result of call j differs from the fresh reference, or its value changes when the input is scribbled;
// p > 0: the value returned by call p is different after call j.
// This is only the search predicate of the shrinker; the verdict on the shrunk history is TLC's.
func differs(f *Family, names []string, j, p int, fr map[string]int, in *interner) bool {
	evs := replay(f, names, in)
	if j < 1 || j > len(evs) {
		return false
	}
	e := evs[j-1]
	if p == 0 {
		return e.R != fr[e.K] || e.H != e.S
	}
	if p >= j || p-1 >= len(e.RC) || e.RC[p-1] == 0 {
		return false
	}
	return evs[p-1].H != e.RC[p-1]
}

func cmdShrink() {
	runtime.GOMAXPROCS(1)
	in := &interner{ids: map[string]int{}}
	fr := fresh(in, "")
	sc := bufio.NewScanner(os.Stdin)
	sc.Buffer(make([]byte, 1<<20), 1<<26)
	enc := json.NewEncoder(os.Stdout)
	memo := map[string]any{}
	for sc.Scan() {
		var hl histLine
		if err := json.Unmarshal(sc.Bytes(), &hl); err != nil || hl.F == "" {
			fmt.Fprintln(os.Stderr, "bad shrink line")
			os.Exit(2)
		}
		f := findFamily(hl.F)
		names, ok := namesOf(f, hl.H)
		if !ok || hl.J < 1 || hl.J > len(names) {
			fmt.Fprintln(os.Stderr, "bad shrink history")
			os.Exit(2)
		}
		names = names[:hl.J]
		key := fmt.Sprint(hl.F, names, hl.P)
		if r, ok := memo[key]; ok {
			_ = enc.Encode(r)
			continue
		}
		// candidates: sub-histories that keep the last call (and the producer), shortest first,
		// among equal lengths the one that keeps the latest calls (suffix-like) first.
		n := len(names)
		type cand struct {
			idx []int
		}
		var cands []cand
		if n <= 12 {
			for mask := 0; mask < 1<<uint(n-1); mask++ {
				idx := []int{}
				for b := 0; b < n-1; b++ {
					if mask&(1<<uint(b)) != 0 {
						idx = append(idx, b)
					}
				}
				if hl.P > 0 {
					has := false
					for _, x := range idx {
						if x == hl.P-1 {
							has = true
						}
					}
					if !has {
						continue
					}
				}
				cands = append(cands, cand{append(idx, n-1)})
			}
			sort.SliceStable(cands, func(a, b int) bool {
				if len(cands[a].idx) != len(cands[b].idx) {
					return len(cands[a].idx) < len(cands[b].idx)
				}
				sa, sb := 0, 0
				for _, x := range cands[a].idx {
					sa += x
				}
				for _, x := range cands[b].idx {
					sb += x
				}
				return sa > sb
			})
		}
		best := map[string]any{"f": hl.F, "h": names, "j": hl.J, "p": hl.P}
		for _, c := range cands {
			sub := make([]string, len(c.idx))
			np := 0
			for i, x := range c.idx {
				sub[i] = names[x]
				if hl.P > 0 && x == hl.P-1 {
					np = i + 1
				}
			}
			if differs(f, sub, len(sub), np, fr[hl.F], in) {
				best = map[string]any{"f": hl.F, "h": sub, "j": len(sub), "p": np}
				break
			}
		}
		memo[key] = best
		_ = enc.Encode(best)
	}
}

// cmdProc: the calls of one history are the FIRST calls of this process, each on a new instance.  What a package keeps
// per process (type caches, lazily built tables) is then in the state the history leaves it in, not in the state the
// reference sweep of the exec command leaves it in.  Results are printed as values; props/C07.py only looks them up in the
// value table of the reference process, TLC compares.
func cmdProc(args []string) {
	fs := flag.NewFlagSet("proc", flag.ExitOnError)
	fam := fs.String("fam", "", "family")
	_ = fs.Parse(args)
	runtime.GOMAXPROCS(1)
	f := findFamily(*fam)
	sc := bufio.NewScanner(os.Stdin)
	sc.Buffer(make([]byte, 1<<20), 1<<26)
	var hl histLine
	if f == nil || !sc.Scan() || json.Unmarshal(sc.Bytes(), &hl) != nil {
		fmt.Fprintln(os.Stderr, "proc: need -fam and one history line")
		os.Exit(2)
	}
	names, ok := namesOf(f, hl.H)
	if !ok {
		fmt.Fprintln(os.Stderr, "proc: bad history")
		os.Exit(2)
	}
	type pev struct {
		K string `json:"k"`
		R any    `json:"r"`
	}
	evs := []pev{}
	for _, n := range names {
		k := f.kind(n)
		if k == nil {
			fmt.Fprintf(os.Stderr, "unknown kind %s in family %s\n", n, f.Name)
			os.Exit(2)
		}
		var inst any
		freshPools()
		if !f.Pooled {
			inst = f.New()
		}
		o := runCall(k, inst)
		evs = append(evs, pev{K: n, R: kindEnc(o.Res)})
	}
	b, err := json.Marshal(map[string]any{"f": f.Name, "ev": evs})
	if err != nil {
		panic(err)
	}
	fmt.Println(string(b))
}

func cmdMenu() {
	type kd struct {
		Name   string `json:"name"`
		Exempt string `json:"exempt"`
		API    string `json:"api"`
	}
	type fd struct {
		Name   string `json:"name"`
		Pooled bool   `json:"pooled"`
		Named  bool   `json:"named"`
		Kinds  []kd   `json:"kinds"`
	}
	var out []fd
	for _, f := range families {
		d := fd{Name: f.Name, Pooled: f.Pooled, Named: f.Named}
		for _, k := range f.Kinds {
			d.Kinds = append(d.Kinds, kd{k.Name, k.Exempt, k.API})
		}
		out = append(out, d)
	}
	b, _ := json.Marshal(map[string]any{"families": out})
	fmt.Println(string(b))
}

func main() {
	if len(os.Args) < 2 {
		fmt.Fprintln(os.Stderr, "usage: reuse menu|exec|proc|shrink")
		os.Exit(2)
	}
	switch os.Args[1] {
	case "menu":
		cmdMenu()
	case "exec":
		cmdExec(os.Args[2:])
	case "proc":
		cmdProc(os.Args[2:])
	case "shrink":
		cmdShrink()
	default:
		fmt.Fprintln(os.Stderr, "unknown command")
		os.Exit(2)
	}
}
