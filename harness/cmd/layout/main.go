// Command layout drives the real pretty printer and the indenting writers of ojg for the extension check
// XPRETTY (layout rules, spec/PrettyLayout.tla).
//
//	layout gen  [-tier quick|thorough]   > cases.ndjson     seeded random / family cases (no expectations)
//	layout exec                          < cases.ndjson > trace.ndjson
//
// A case is {id, src, tree, k, w, d, al, sen [, ind, tab]}:
//
//	tree   abstract value: {t:"null"} {t:"bool",v} {t:"int",v} {t:"str",v:[bytes]} {t:"arr",v:[..]}
//	       {t:"obj",k:[[bytes]..] (ascending),v:[..]}
//	k      "std"   canonical options Width=w, MaxDepth=d: every way of saying so is called
//	       "f"     the single argument float64(w)+d/10      ("edge.depth" notation, d = 0..9)
//	       "frac"  the single argument d/10                 (depth only)
//	       "int"   the single argument int(w)               (width only)
//	       "none"  no width/depth argument at all
//	       "oj"    oj.JSON / sen.String with Indent=ind or Tab (the indenting writers)
//
// exec calls, always with FRESH writers, pretty.JSON / pretty.SEN, pretty.WriteJSON / WriteSEN with several WriteLimits
// on a recording io.Writer, pretty.Writer{...}.Encode / Marshal / Write, each on the simple and on the gen form of the
// value, merges byte-identical observations (no judgement) and writes one trace line per case:
//
//	{id, src, tree, k, w, d, al, sen, ind, tab, texts: [{b: [bytes], as: ["api" ...]}], calls: n}
//
// The driver decides nothing: whether a text is an admissible layout is judged by TLC (TracePrettyLayout).
package main

import (
	"bufio"
	"encoding/json"
	"flag"
	"fmt"
	"math/rand"
	"os"
	"runtime"
	"sort"
	"strconv"
	"sync"

	"github.com/ohler55/ojg"
	"github.com/ohler55/ojg/gen"
	"github.com/ohler55/ojg/oj"
	"github.com/ohler55/ojg/pretty"
	"github.com/ohler55/ojg/sen"
)

type M = map[string]any

func main() {
	if len(os.Args) < 2 {
		fmt.Fprintln(os.Stderr, "usage: layout gen|exec|show ...")
		os.Exit(2)
	}
	switch os.Args[1] {
	case "gen":
		genCases(os.Args[2:])
	case "exec":
		execCases(os.Args[2:])
	case "show":
		showCases()
	default:
		fmt.Fprintln(os.Stderr, "unknown mode", os.Args[1])
		os.Exit(2)
	}
}

// ---------------------------------------------------------------- helpers
func ints(b []byte) []int {
	r := make([]int, len(b))
	for i, x := range b {
		r[i] = int(x)
	}
	return r
}

func line(v any) []byte {
	b, err := json.Marshal(v)
	if err != nil {
		panic(err)
	}
	return append(b, '\n')
}

func readLines(f *os.File, fn func([]byte)) {
	sc := bufio.NewScanner(f)
	sc.Buffer(make([]byte, 1<<20), 1<<28)
	for sc.Scan() {
		if len(sc.Bytes()) > 0 {
			fn(append([]byte{}, sc.Bytes()...))
		}
	}
}

func seed() int64 {
	s, _ := strconv.ParseInt(os.Getenv("VERIF_SEED"), 10, 64)
	if s == 0 {
		s = 1
	}
	return s
}

func bytesOf(v any) []byte {
	a, _ := v.([]any)
	b := make([]byte, len(a))
	for i, x := range a {
		f, _ := x.(float64)
		b[i] = byte(int(f))
	}
	return b
}

func num(v any) int {
	f, _ := v.(float64)
	return int(f)
}

// build turns the abstract tree into the Go value handed to ojg (simple or gen form).
func build(a M, asGen bool) any {
	switch a["t"] {
	case "null":
		return nil
	case "bool":
		b, _ := a["v"].(bool)
		if asGen {
			return gen.Bool(b)
		}
		return b
	case "int":
		if asGen {
			return gen.Int(int64(num(a["v"])))
		}
		return int64(num(a["v"]))
	case "str":
		s := string(bytesOf(a["v"]))
		if asGen {
			return gen.String(s)
		}
		return s
	case "arr":
		vs, _ := a["v"].([]any)
		if asGen {
			out := make(gen.Array, 0, len(vs))
			for _, x := range vs {
				n, _ := build(x.(M), true).(gen.Node)
				out = append(out, n)
			}
			return out
		}
		out := make([]any, 0, len(vs))
		for _, x := range vs {
			out = append(out, build(x.(M), false))
		}
		return out
	case "obj":
		ks, _ := a["k"].([]any)
		vs, _ := a["v"].([]any)
		if asGen {
			out := gen.Object{}
			for i := range ks {
				n, _ := build(vs[i].(M), true).(gen.Node)
				out[string(bytesOf(ks[i]))] = n
			}
			return out
		}
		out := map[string]any{}
		for i := range ks {
			out[string(bytesOf(ks[i]))] = build(vs[i].(M), false)
		}
		return out
	}
	panic(fmt.Sprintf("bad abstract node %v", a))
}

// recorder is the io.Writer handed to the streaming calls; only the concatenation is an observation
// (chunk sizes are not constrained by any statement), the number of Write calls is kept for the record.
type recorder struct {
	buf    []byte
	writes int
}

func (r *recorder) Write(p []byte) (int, error) {
	r.buf = append(r.buf, p...)
	r.writes++
	return len(p), nil
}

type obs struct {
	text []byte
	apis []string
}

type collector struct {
	list  []*obs
	calls int
}

func (c *collector) add(api string, f func() []byte) {
	var text []byte
	func() {
		defer func() {
			if r := recover(); r != nil {
				text = []byte(fmt.Sprintf("\x00PANIC %v", r))
			}
		}()
		text = f()
	}()
	c.calls++
	for _, o := range c.list {
		if string(o.text) == string(text) {
			o.apis = append(o.apis, api)
			return
		}
	}
	c.list = append(c.list, &obs{text: append([]byte{}, text...), apis: []string{api}})
}

func limitsFor(n int) []int {
	ls := []int{1, 2, 7, 20}
	if n > 40 {
		ls = append(ls, n/2)
	}
	ls = append(ls, n+1)
	return ls
}

func runCase(c M) M {
	tree := c["tree"].(M)
	k, _ := c["k"].(string)
	w, d := num(c["w"]), num(c["d"])
	al, _ := c["al"].(bool)
	isSen, _ := c["sen"].(bool)
	col := &collector{}
	name := "JSON"
	if isSen {
		name = "SEN"
	}
	// the argument lists that, by the documentation of pretty.JSON, say "Width w, MaxDepth d, Align al"
	type argset struct {
		tag  string
		args []any
	}
	var sets []argset
	fl := float64(w) + float64(d)/10.0
	switch k {
	case "std":
		if w >= 1 && d >= 1 && d <= 9 {
			sets = append(sets, argset{"float", []any{fl, al}})
			sets = append(sets, argset{"bool-first", []any{al, fl}})
		}
		if d >= 1 && d <= 9 {
			sets = append(sets, argset{"int+frac", []any{w, float64(d) / 10.0, al}})
		}
	case "f":
		sets = append(sets, argset{"float", []any{fl, al}})
	case "frac":
		sets = append(sets, argset{"frac", []any{float64(d) / 10.0, al}})
	case "int":
		sets = append(sets, argset{"int", []any{w, al}})
	case "none":
		sets = append(sets, argset{"none", []any{al}})
	}
	for _, asGen := range []bool{false, true} {
		form := "simple"
		if asGen {
			form = "gen"
		}
		val := build(tree, asGen)
		if k == "oj" {
			ind := num(c["ind"])
			tab, _ := c["tab"].(bool)
			if isSen {
				col.add("sen.String/"+form, func() []byte { return []byte(sen.String(val, &ojg.Options{Indent: ind, Tab: tab, Sort: true})) })
				col.add("sen.Writer/"+form, func() []byte {
					wr := sen.Writer{Options: ojg.Options{Indent: ind, Tab: tab, Sort: true}}
					return append([]byte{}, wr.MustSEN(val)...)
				})
				for _, l := range []int{1, 9, 4096} {
					l := l
					col.add("sen.Write/"+form, func() []byte {
						var r recorder
						if err := sen.Write(&r, val, &ojg.Options{Indent: ind, Tab: tab, Sort: true, WriteLimit: l}); err != nil {
							panic(err)
						}
						return r.buf
					})
				}
			} else {
				col.add("oj.JSON/"+form, func() []byte { return []byte(oj.JSON(val, &ojg.Options{Indent: ind, Tab: tab, Sort: true})) })
				col.add("oj.Marshal/"+form, func() []byte {
					b, err := oj.Marshal(val, &ojg.Options{Indent: ind, Tab: tab, Sort: true})
					if err != nil {
						panic(err)
					}
					return b
				})
				col.add("oj.Writer/"+form, func() []byte {
					wr := oj.Writer{Options: ojg.Options{Indent: ind, Tab: tab, Sort: true}}
					return append([]byte{}, wr.MustJSON(val)...)
				})
				for _, l := range []int{1, 9, 4096} {
					l := l
					col.add("oj.Write/"+form, func() []byte {
						var r recorder
						if err := oj.Write(&r, val, &ojg.Options{Indent: ind, Tab: tab, Sort: true, WriteLimit: l}); err != nil {
							panic(err)
						}
						return r.buf
					})
				}
			}
			continue
		}
		var plain []byte
		for _, s := range sets {
			s := s
			col.add("pretty."+name+"/"+s.tag+"/"+form, func() []byte {
				if isSen {
					return []byte(pretty.SEN(val, s.args...))
				}
				return []byte(pretty.JSON(val, s.args...))
			})
			if plain == nil && len(col.list) > 0 {
				plain = col.list[0].text
			}
			for _, l := range limitsFor(len(plain)) {
				l := l
				args := append([]any{&ojg.Options{WriteLimit: l}}, s.args...)
				col.add("pretty.Write"+name+"/"+s.tag+"/"+form, func() []byte {
					var r recorder
					var err error
					if isSen {
						err = pretty.WriteSEN(&r, val, args...)
					} else {
						err = pretty.WriteJSON(&r, val, args...)
					}
					if err != nil {
						panic(err)
					}
					return r.buf
				})
				if s.tag != "float" && s.tag != k {
					break // the other notations get one limit only
				}
			}
		}
		if k == "std" {
			col.add("pretty.Writer.Encode/"+form, func() []byte {
				wr := pretty.Writer{Width: w, MaxDepth: d, Align: al, SEN: isSen}
				return append([]byte{}, wr.Encode(val)...)
			})
			col.add("pretty.Writer.Marshal/"+form, func() []byte {
				wr := pretty.Writer{Width: w, MaxDepth: d, Align: al, SEN: isSen}
				b, err := wr.Marshal(val)
				if err != nil {
					panic(err)
				}
				return b
			})
			for _, l := range []int{1, 13, 0} {
				l := l
				col.add("pretty.Writer.Write/"+form, func() []byte {
					wr := pretty.Writer{Width: w, MaxDepth: d, Align: al, SEN: isSen}
					wr.WriteLimit = l
					var r recorder
					if err := wr.Write(&r, val); err != nil {
						panic(err)
					}
					return r.buf
				})
			}
		}
	}
	texts := make([]any, 0, len(col.list))
	for _, o := range col.list {
		as := o.apis
		if len(as) > 6 {
			as = append(append([]string{}, as[:5]...), fmt.Sprintf("+%d more", len(o.apis)-5))
		}
		texts = append(texts, M{"b": ints(o.text), "as": as})
	}
	out := M{"id": c["id"], "src": c["src"], "tree": tree, "k": k, "w": w, "d": d, "al": al, "sen": isSen,
		"ind": num(c["ind"]), "tab": c["tab"] == true, "texts": texts, "calls": col.calls}
	return out
}

func execCases(args []string) {
	fs := flag.NewFlagSet("exec", flag.ExitOnError)
	_ = fs.Parse(args)
	var cases [][]byte
	readLines(os.Stdin, func(b []byte) { cases = append(cases, b) })
	outs := make([][]byte, len(cases))
	var wg sync.WaitGroup
	nw := runtime.NumCPU() / 2
	if nw < 1 {
		nw = 1
	}
	if nw > 6 {
		nw = 6
	}
	ch := make(chan int, 64)
	for g := 0; g < nw; g++ {
		wg.Add(1)
		go func() {
			defer wg.Done()
			for i := range ch {
				var c M
				if err := json.Unmarshal(cases[i], &c); err != nil {
					fmt.Fprintln(os.Stderr, "bad case line", i+1, err)
					os.Exit(3)
				}
				outs[i] = line(runCase(c))
			}
		}()
	}
	for i := range cases {
		ch <- i
	}
	close(ch)
	wg.Wait()
	wr := bufio.NewWriterSize(os.Stdout, 1<<20)
	for _, o := range outs {
		_, _ = wr.Write(o)
	}
	_ = wr.Flush()
}

// show: print the texts of the cases on stdin (debugging aid).
func showCases() {
	readLines(os.Stdin, func(b []byte) {
		var c M
		if err := json.Unmarshal(b, &c); err != nil {
			panic(err)
		}
		o := runCase(c)
		fmt.Printf("--- id=%v k=%v w=%v d=%v al=%v sen=%v calls=%v\n", o["id"], o["k"], o["w"], o["d"], o["al"], o["sen"], o["calls"])
		for _, t := range o["texts"].([]any) {
			tm := t.(M)
			bs := tm["b"].([]int)
			bb := make([]byte, len(bs))
			for i, x := range bs {
				bb[i] = byte(x)
			}
			fmt.Printf("%s\n    <- %v\n", bb, tm["as"])
		}
	})
}

// ---------------------------------------------------------------- generation (seeded; no expectations)
func aNull() M        { return M{"t": "null"} }
func aBool(b bool) M  { return M{"t": "bool", "v": b} }
func aInt(i int) M    { return M{"t": "int", "v": i} }
func aStr(s string) M { return M{"t": "str", "v": ints([]byte(s))} }
func aArr(v ...any) M { return M{"t": "arr", "v": append([]any{}, v...)} }
func aObj(kv ...any) M {
	type pair struct {
		k string
		v any
	}
	var ps []pair
	for i := 0; i+1 < len(kv); i += 2 {
		ps = append(ps, pair{kv[i].(string), kv[i+1]})
	}
	sort.Slice(ps, func(i, j int) bool { return ps[i].k < ps[j].k })
	ks, vs := []any{}, []any{}
	for i, p := range ps {
		if i > 0 && ps[i-1].k == p.k {
			continue
		}
		ks = append(ks, ints([]byte(p.k)))
		vs = append(vs, p.v)
	}
	return M{"t": "obj", "k": ks, "v": vs}
}

var words = []string{"a", "b", "x", "yy", "abc", "delta", "k", "zulu", "mm", "q", "name", "id", "lorem"}
var strs = []string{"a", "xy", "abc", "hello", "q", "longer", "z", "mid", "a b", ""}

func randLeaf(r *rand.Rand) M {
	switch r.Intn(7) {
	case 0:
		return aNull()
	case 1:
		return aBool(r.Intn(2) == 0)
	case 2, 3:
		ns := []int{0, 1, 7, 10, 42, 100, 999, 1000, 12345, -1, -20, 300}
		return aInt(ns[r.Intn(len(ns))])
	default:
		return aStr(strs[r.Intn(len(strs))])
	}
}

func randTree(r *rand.Rand, depth, fan int) M {
	if depth <= 0 || r.Intn(5) == 0 {
		return randLeaf(r)
	}
	n := r.Intn(fan + 1)
	if r.Intn(2) == 0 {
		vs := []any{}
		for i := 0; i < n; i++ {
			vs = append(vs, randTree(r, depth-1, fan))
		}
		return aArr(vs...)
	}
	kv := []any{}
	for i := 0; i < n; i++ {
		kv = append(kv, words[r.Intn(len(words))], randTree(r, depth-1, fan))
	}
	return aObj(kv...)
}

// rows of one kind for the Align family: every row the same container kind, cells leaves or small containers
func randRows(r *rand.Rand) M {
	nrows := 2 + r.Intn(3)
	ncols := 1 + r.Intn(3)
	asMap := r.Intn(2) == 0
	nested := r.Intn(4) == 0
	keys := []string{"x", "y", "zed", "k"}
	rows := []any{}
	for i := 0; i < nrows; i++ {
		n := ncols
		if r.Intn(4) == 0 && n > 1 {
			n--
		}
		if asMap {
			kv := []any{}
			// missing members only at the front or in the middle: a row that lacks the LAST column is C04's known finding
			skip := -1
			if n < ncols {
				skip = r.Intn(ncols - 1)
			}
			for j := 0; j < ncols; j++ {
				if j == skip {
					continue
				}
				var cell M
				if nested && j == ncols-1 {
					cell = aArr(randLeaf(r), randLeaf(r))
				} else {
					cell = randLeaf(r)
				}
				kv = append(kv, keys[j], cell)
			}
			rows = append(rows, aObj(kv...))
		} else {
			vs := []any{}
			for j := 0; j < n; j++ {
				if nested && j == ncols-1 {
					vs = append(vs, aArr(randLeaf(r), randLeaf(r)))
				} else {
					vs = append(vs, randLeaf(r))
				}
			}
			rows = append(rows, aArr(vs...))
		}
	}
	t := aArr(rows...)
	if r.Intn(3) == 0 {
		t = aObj("rows", t, "n", aInt(nrows))
	}
	return t
}

// flatSize: length of the one-line rendering - used ONLY to choose the range of widths to enumerate (a wrong value
// would merely shift the range; the boundary widths proper are enumerated by TLC in PrettyLayoutGen).
func flatSize(a M, isSen bool) int {
	switch a["t"] {
	case "null":
		return 4
	case "bool":
		if a["v"] == true {
			return 4
		}
		return 5
	case "int":
		return len(strconv.Itoa(a["v"].(int)))
	case "str":
		return len(a["v"].([]int)) + 2
	case "arr":
		n := 2
		for i, x := range a["v"].([]any) {
			if i > 0 {
				n += 2
			}
			n += flatSize(x.(M), isSen)
		}
		return n
	case "obj":
		n := 2
		ks := a["k"].([]any)
		for i, x := range a["v"].([]any) {
			if i > 0 {
				n += 2
			}
			n += len(ks[i].([]int)) + 4 + flatSize(x.(M), isSen)
		}
		return n
	}
	return 0
}

func height(a M) int {
	h := 0
	switch a["t"] {
	case "arr", "obj":
		for _, x := range a["v"].([]any) {
			if hh := height(x.(M)) + 1; hh > h {
				h = hh
			}
		}
	}
	return h
}

func genCases(args []string) {
	fs := flag.NewFlagSet("gen", flag.ExitOnError)
	tier := fs.String("tier", "quick", "quick|thorough")
	_ = fs.Parse(args)
	r := rand.New(rand.NewSource(seed()))
	wr := bufio.NewWriterSize(os.Stdout, 1<<20)
	defer wr.Flush()
	id := 0
	emit := func(src string, tree M, k string, w, d int, al, isSen bool, extra M) {
		id++
		c := M{"id": id, "src": src, "tree": tree, "k": k, "w": w, "d": d, "al": al, "sen": isSen, "ind": 0, "tab": false}
		for kk, v := range extra {
			c[kk] = v
		}
		_, _ = wr.Write(line(c))
	}
	nTrees, nRows, nOj := 120, 80, 150
	wstep := 3
	if *tier == "thorough" {
		nTrees, nRows, nOj = 1200, 700, 1500
		wstep = 1
	}
	// random trees x a sweep of widths (thorough: EVERY width 1..size+3, which contains every boundary) x depths
	for i := 0; i < nTrees; i++ {
		t := randTree(r, 1+r.Intn(4), 1+r.Intn(4))
		isSen := r.Intn(2) == 0
		size := flatSize(t, isSen)
		h := height(t)
		off := r.Intn(wstep)
		for w := 1 + off; w <= size+3 && w <= 128; w += wstep {
			d := 1 + r.Intn(h+2)
			if d > 9 {
				d = 9
			}
			emit("rand", t, "std", w, d, false, isSen, nil)
		}
		emit("rand", t, "std", 0, 3, false, isSen, nil)
	}
	// aligned rows
	for i := 0; i < nRows; i++ {
		t := randRows(r)
		isSen := r.Intn(2) == 0
		size := flatSize(t, isSen)
		off := r.Intn(wstep)
		for w := 4 + off; w <= size+6 && w <= 128; w += wstep {
			emit("rows", t, "std", w, 2+r.Intn(3), true, isSen, nil)
		}
	}
	// the argument notation
	for i := 0; i < nTrees/2; i++ {
		t := randTree(r, 1+r.Intn(4), 1+r.Intn(3))
		isSen := r.Intn(2) == 0
		al := r.Intn(4) == 0
		w := 1 + r.Intn(flatSize(t, isSen)+4)
		if w > 128 {
			w = 128
		}
		emit("args", t, "f", w, r.Intn(10), al, isSen, nil)
		emit("args", t, "frac", 0, 1+r.Intn(9), al, isSen, nil)
		emit("args", t, "int", w, 0, al, isSen, nil)
		emit("args", t, "none", 0, 0, al, isSen, nil)
		if i%10 == 0 {
			emit("args", t, "f", 129+r.Intn(100), 1+r.Intn(9), al, isSen, nil)
		}
	}
	// deep chains (indentation step 1 when the tree is deep relative to the width)
	for n := 1; n <= 40; n += 3 {
		var t M = aInt(1)
		for i := 0; i < n; i++ {
			if i%2 == 0 {
				t = aArr(t)
			} else {
				t = aObj("k", t)
			}
		}
		for _, w := range []int{8, 20, 40, 80, 106, 107, 128} {
			emit("deep", t, "std", w, 1+r.Intn(3), false, n%2 == 0, nil)
		}
	}
	// the indenting writers
	for i := 0; i < nOj; i++ {
		t := randTree(r, 1+r.Intn(4), 1+r.Intn(4))
		inds := []int{0, 1, 2, 3, 4, 8}
		emit("oj", t, "oj", 0, 0, false, r.Intn(2) == 0, M{"ind": inds[r.Intn(len(inds))], "tab": r.Intn(5) == 0})
	}
}
