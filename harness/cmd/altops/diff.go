package main

import (
	"bufio"
	"bytes"
	"encoding/json"
	"flag"
	"fmt"
	"math"
	"math/rand"
	"os"
	"sort"
	"strconv"

	"github.com/ohler55/ojg/alt"
	"github.com/ohler55/ojg/gen"

	"verif/harness/absval"
)

// ---------------------------------------------------------------------------------------------
// C19: replay (a, b, ignore sets) cases on alt.Diff / alt.Compare / alt.Match.
//
// case line : {"a": abs, "b": abs, "igs": [[path, ...], ...], "salt": n}
// trace line: one per (case, form)  {"f": "simple"|"gen", "salt", "a", "b" (projection of the Go values the calls saw),
//             "mab", "mba" (Match(a,b), Match(b,a)), "mpan", "o": [{"ign": [path...], "ab": {"d": [path...], "c": [] | [path], "pan"},
//             "ba": {...}}]}
// path component: {"t":"k","v":key} | {"t":"i","v":index} | {"t":"w","v":0} (nil wildcard)

type diffCase struct {
	A    any     `json:"a"`
	B    any     `json:"b"`
	Igs  [][]any `json:"igs"`
	Salt int64   `json:"salt"`
}

type diffObs struct {
	D   []any `json:"d"`
	C   []any `json:"c"`
	Pan bool  `json:"pan"`
}

type ignObs struct {
	Ign []any   `json:"ign"`
	AB  diffObs `json:"ab"`
	BA  diffObs `json:"ba"`
}

// reflObs: Diff, Compare and Match of a tree against an equal, separately built tree
type reflObs struct {
	D   []any `json:"d"`
	C   []any `json:"c"`
	M   bool  `json:"m"`
	Pan bool  `json:"pan"`
}

func reflexive(x1, x2 any) reflObs {
	o := observe(x1, x2, nil)
	m, p := match(x1, x2)
	return reflObs{D: o.D, C: o.C, M: m, Pan: o.Pan || p}
}

// project: absval with two more facts for unsigned leaves above MaxInt64 (f64, f64exact), which the specification needs
// to compare such a leaf with a float by value.
func project(v any) any {
	switch t := v.(type) {
	case uint64:
		return wrapFact(t, absval.Atoms(v))
	case uint:
		return wrapFact(uint64(t), absval.Atoms(v))
	case []any:
		a := make([]any, len(t))
		for i, e := range t {
			a[i] = project(e)
		}
		return map[string]any{"t": "arr", "v": a}
	case map[string]any:
		keys := make([]string, 0, len(t))
		for k := range t {
			keys = append(keys, k)
		}
		sort.Strings(keys)
		ks, vs := make([]any, len(keys)), make([]any, len(keys))
		for i, k := range keys {
			ks[i], vs[i] = k, project(t[k])
		}
		return map[string]any{"t": "obj", "k": ks, "v": vs}
	}
	return absval.Atoms(v)
}

func wrapFact(u uint64, p any) any {
	if u > math.MaxInt64 {
		m := p.(map[string]any)
		// facts about the value that TLC cannot compute: the float64 it rounds to and whether that float is exactly u
		f := float64(u)
		m["f64"] = strconv.FormatFloat(f, 'g', -1, 64)
		m["f64exact"] = f < 18446744073709551616.0 && uint64(f) == u
	}
	return p
}

type diffLine struct {
	F    string   `json:"f"`
	Salt int64    `json:"salt"`
	A    any      `json:"a"`
	B    any      `json:"b"`
	MAB  bool     `json:"mab"`
	MBA  bool     `json:"mba"`
	MPan bool     `json:"mpan"`
	RA   reflObs  `json:"ra"`
	RB   reflObs  `json:"rb"`
	O    []ignObs `json:"o"`
	// XS (gen line only): what Diff returned without ignore paths for the SAME pair built as simple data ("ab", "ba"),
	// and XG the same for the gen data; present when the two forms have identical projections but answer differently.
	// The specification demands one reading of int-versus-equal-float for both representations (Diff.tla A1').
	XS map[string][]any `json:"xs,omitempty"`
	XG map[string][]any `json:"xg,omitempty"`
}

// ---- aliasing builds: the two arguments share memory wherever their values allow it ----
//
// Equal container subtrees (anywhere in a or b) are ONE Go object (the same map, the same slice); where an array of a
// and the array at the same location of b are one a proper prefix of the other, both are slices of one backing array
// (b = append(a, x) with spare capacity, b = a[:n]).  The values the calls see are the same as in the separate
// builds (the logged projections say so), only the memory layout differs.
type aliasBuilder struct {
	gen  bool
	r    *salt
	memo map[string]any
	// shared counts the places where memory is shared; 0 = the build is no different from the separate builds
	shared int
}

func canon(v any) string {
	b, _ := json.Marshal(v)
	return string(b)
}

func (ab *aliasBuilder) leaf(v abs) any {
	if ab.gen {
		if g := toGen(v); g != nil {
			return g
		}
		return nil
	}
	return toSimple(v, ab.r)
}

func (ab *aliasBuilder) mkArr(elems []any, spare int) any {
	if ab.gen {
		a := make(gen.Array, len(elems), len(elems)+spare)
		for i, e := range elems {
			if e != nil {
				a[i] = e.(gen.Node)
			}
		}
		return a
	}
	a := make([]any, len(elems), len(elems)+spare)
	copy(a, elems)
	return a
}

func (ab *aliasBuilder) mkObj(keys []any, vals []any) any {
	if ab.gen {
		o := make(gen.Object, len(keys))
		for i, k := range keys {
			if vals[i] != nil {
				o[k.(string)] = vals[i].(gen.Node)
			} else {
				o[k.(string)] = nil
			}
		}
		return o
	}
	o := make(map[string]any, len(keys))
	for i, k := range keys {
		o[k.(string)] = vals[i]
	}
	return o
}

func (ab *aliasBuilder) one(v abs) any {
	t := v["t"]
	if t != "arr" && t != "obj" {
		return ab.leaf(v)
	}
	key := canon(v)
	if x, ok := ab.memo[key]; ok {
		ab.shared++
		return x
	}
	l, _ := v["v"].([]any)
	vals := make([]any, len(l))
	for i, e := range l {
		vals[i] = ab.one(e.(abs))
	}
	var x any
	if t == "arr" {
		x = ab.mkArr(vals, 2)
	} else {
		ks, _ := v["k"].([]any)
		x = ab.mkObj(ks, vals)
	}
	ab.memo[key] = x
	return x
}

func reslice(x any, n int) any {
	switch t := x.(type) {
	case []any:
		return t[:n]
	case gen.Array:
		return t[:n]
	}
	panic("reslice")
}

func (ab *aliasBuilder) pair(a, b abs) (any, any) {
	if canon(a) == canon(b) {
		x := ab.one(a)
		if t := a["t"]; t == "arr" || t == "obj" {
			ab.shared++
		}
		return x, x
	}
	if a["t"] == "arr" && b["t"] == "arr" {
		la, _ := a["v"].([]any)
		lb, _ := b["v"].([]any)
		n := len(la)
		if len(lb) < n {
			n = len(lb)
		}
		prefix := len(la) != len(lb)
		for i := 0; i < n && prefix; i++ {
			prefix = canon(la[i]) == canon(lb[i])
		}
		if prefix {
			long := la
			if len(lb) > len(la) {
				long = lb
			}
			vals := make([]any, len(long))
			for i, e := range long {
				vals[i] = ab.one(e.(abs))
			}
			full := ab.mkArr(vals, 1)
			ab.shared++
			return reslice(full, len(la)), reslice(full, len(lb))
		}
		va, vb := make([]any, len(la)), make([]any, len(lb))
		for i := range la {
			if i < n {
				va[i], vb[i] = ab.pair(la[i].(abs), lb[i].(abs))
			} else {
				va[i] = ab.one(la[i].(abs))
			}
		}
		for i := n; i < len(lb); i++ {
			vb[i] = ab.one(lb[i].(abs))
		}
		return ab.mkArr(va, 0), ab.mkArr(vb, 0)
	}
	if a["t"] == "obj" && b["t"] == "obj" {
		ma, mb := objMap(a), objMap(b)
		ka, _ := a["k"].([]any)
		kb, _ := b["k"].([]any)
		va, vb := make([]any, len(ka)), make([]any, len(kb))
		done := map[string]any{}
		for i, k := range ka {
			if o, ok := mb[k.(string)]; ok {
				va[i], done[k.(string)] = ab.pair(ma[k.(string)].(abs), o.(abs))
			} else {
				va[i] = ab.one(ma[k.(string)].(abs))
			}
		}
		for i, k := range kb {
			if _, ok := ma[k.(string)]; ok {
				vb[i] = done[k.(string)]
			} else {
				vb[i] = ab.one(mb[k.(string)].(abs))
			}
		}
		return ab.mkObj(ka, va), ab.mkObj(kb, vb)
	}
	return ab.one(a), ab.one(b)
}

func noIgn(x, y, x2, y2 any) map[string][]any {
	return map[string][]any{"ab": observe(x, y, nil).D, "ba": observe(y2, x2, nil).D}
}

func toPath(p any) alt.Path {
	l, _ := p.([]any)
	out := make(alt.Path, len(l))
	for i, c := range l {
		m := c.(abs)
		switch m["t"] {
		case "k":
			out[i] = m["v"].(string)
		case "i":
			out[i] = int(num(m["v"]))
		default:
			out[i] = nil
		}
	}
	return out
}

func fromPath(p alt.Path) any {
	out := make([]any, len(p))
	for i, c := range p {
		switch t := c.(type) {
		case string:
			out[i] = abs{"t": "k", "v": t}
		case int:
			out[i] = abs{"t": "i", "v": t}
		case nil:
			out[i] = abs{"t": "w", "v": 0}
		default:
			out[i] = abs{"t": "x", "v": 0} // not a legal component: no specification path equals it
		}
	}
	return out
}

func observe(x, y any, ign []alt.Path) (o diffObs) {
	o.D, o.C = []any{}, []any{}
	defer func() {
		if r := recover(); r != nil {
			o = diffObs{D: []any{}, C: []any{}, Pan: true}
		}
	}()
	for _, p := range alt.Diff(x, y, ign...) {
		o.D = append(o.D, fromPath(p))
	}
	sortPaths(o.D)
	if c := alt.Compare(x, y, ign...); c != nil {
		o.C = append(o.C, fromPath(c))
	}
	return
}

// sortPaths puts the returned paths in a canonical order: the specification reads them as a set
// (Go map iteration makes the order of Diff's result random anyway).
func sortPaths(l []any) {
	keys := make([]string, len(l))
	for i, p := range l {
		b, _ := json.Marshal(p)
		keys[i] = string(b)
	}
	sort.Sort(&byKey{keys, l})
}

type byKey struct {
	k []string
	v []any
}

func (b *byKey) Len() int           { return len(b.k) }
func (b *byKey) Less(i, j int) bool { return b.k[i] < b.k[j] }
func (b *byKey) Swap(i, j int)      { b.k[i], b.k[j] = b.k[j], b.k[i]; b.v[i], b.v[j] = b.v[j], b.v[i] }

const aliasIgs = 6

func sameObs(x, y diffLine) bool {
	x.F, y.F = "", ""
	x.XS, x.XG, y.XS, y.XG = nil, nil, nil, nil
	if len(x.O) < len(y.O) { // an aliased line carries the observations of the first ignore sets only
		y.O = y.O[:len(x.O)]
	}
	// Compare may legitimately pick different members of Diff's set in the two forms: keep both lines then
	bx, _ := json.Marshal(x)
	by, _ := json.Marshal(y)
	return bytes.Equal(bx, by)
}

func genAny(v any) any {
	if g := toGen(v); g != nil {
		return g
	}
	return nil
}

func match(f, t any) (m, pan bool) {
	defer func() {
		if r := recover(); r != nil {
			m, pan = false, true
		}
	}()
	return alt.Match(f, t), false
}

func diffExec(args []string) {
	fs := flag.NewFlagSet("diffexec", flag.ExitOnError)
	fs.Parse(args)
	in := bufio.NewReaderSize(os.Stdin, 1<<20)
	out := bufio.NewWriterSize(os.Stdout, 1<<20)
	defer out.Flush()
	enc := json.NewEncoder(out)
	n := 0
	for {
		line, err := in.ReadBytes('\n')
		if len(bytes.TrimSpace(line)) > 0 {
			var c diffCase
			dec := json.NewDecoder(bytes.NewReader(line))
			dec.UseNumber()
			if e := dec.Decode(&c); e != nil {
				fmt.Fprintln(os.Stderr, "bad case line:", e)
				os.Exit(2)
			}
			n++
			if c.Salt == 0 {
				c.Salt = int64(n)
			}
			var lines []diffLine
			// the aliased builds are run only where memory can be shared at all
			pre := &aliasBuilder{r: &salt{s: uint64(c.Salt)}, memo: map[string]any{}}
			pre.pair(c.A.(abs), c.B.(abs))
			for _, form := range []string{"simple", "gen", "alias", "galias"} {
				// fresh values for every call group: nothing here is supposed to mutate them, but a
				// defect that did must not leak into the next observation
				var alx, aly [2]any
				nal := 0
				build := func() (any, any) {
					if form == "alias" || form == "galias" {
						// two builds per form (the second one for the Reflexive partner), then reused: the projections logged
						// first would show a call that modified its arguments
						if nal < 2 {
							ab := &aliasBuilder{gen: form == "galias", r: &salt{s: uint64(c.Salt)}, memo: map[string]any{}}
							alx[nal], aly[nal] = ab.pair(c.A.(abs), c.B.(abs))
							nal++
							return alx[nal-1], aly[nal-1]
						}
						return alx[0], aly[0]
					}
					if form == "gen" {
						// untyped nil for a null root (a nil gen.Node interface converts to nil any)
						var x, y any
						if g := toGen(c.A); g != nil {
							x = g
						}
						if g := toGen(c.B); g != nil {
							y = g
						}
						return x, y
					}
					r := &salt{s: uint64(c.Salt)}
					return toSimple(c.A, r), toSimple(c.B, r)
				}
				igsets := c.Igs
				if form == "alias" || form == "galias" {
					// the aliased builds: with the first ignore sets only
					if pre.shared == 0 {
						continue
					}
					if len(igsets) > aliasIgs {
						igsets = igsets[:aliasIgs]
					}
				}
				x, y := build()
				tl := diffLine{F: form, Salt: c.Salt, A: project(x), B: project(y), O: []ignObs{}}
				x2, y2 := build()
				tl.RA, tl.RB = reflexive(x, x2), reflexive(y, y2)
				var p1, p2 bool
				tl.MAB, p1 = match(x, y)
				tl.MBA, p2 = match(y, x)
				tl.MPan = p1 || p2
				for _, set := range igsets {
					orders := [][]any{set}
					if len(set) == 2 {
						orders = append(orders, []any{set[1], set[0]})
					}
					for _, ord := range orders {
						ign := make([]alt.Path, len(ord))
						for i, p := range ord {
							ign[i] = toPath(p)
						}
						x, y = build()
						tl.O = append(tl.O, ignObs{Ign: ord, AB: observe(x, y, ign), BA: observe(y, x, ign)})
					}
				}
				lines = append(lines, tl)
			}
			// one reading of the numeric kinds for both representations: when the two forms have the same projections
			// the gen line also carries what the simple form answered without ignore paths
			// (only an int against a float can be read in two ways: pairs without a float leaf are skipped)
			if bytes.Contains(line, []byte(`"flt"`)) && canon(lines[0].A) == canon(lines[1].A) && canon(lines[0].B) == canon(lines[1].B) {
				r := &salt{s: uint64(c.Salt)}
				xs := noIgn(toSimple(c.A, r), toSimple(c.B, r), toSimple(c.A, r), toSimple(c.B, r))
				ga, gb, ga2, gb2 := genAny(c.A), genAny(c.B), genAny(c.A), genAny(c.B)
				xg := noIgn(ga, gb, ga2, gb2)
				if canon(xs) != canon(xg) {
					lines[1].XS, lines[1].XG = xs, xg
				}
			}
			// identical observations on identical projections are judged once (f = "both"); an aliased build that
			// answers exactly like the separately built form is not judged again
			rest := lines[2:]
			lines = lines[:2]
			for _, al := range rest {
				if !sameObs(al, lines[map[string]int{"alias": 0, "galias": 1}[al.F]]) {
					lines = append(lines, al)
				}
			}
			if lines[1].XS == nil && sameObs(lines[0], lines[1]) {
				lines[0].F = "both"
				lines = append(lines[:1], lines[2:]...)
			}
			for _, tl := range lines {
				if e := enc.Encode(tl); e != nil {
					panic(e)
				}
			}
		}
		if err != nil {
			break
		}
	}
}

// ---------------------------------------------------------------------------------------------
// random pairs (seeded): a random tree, a perturbed copy or an unrelated tree, ignore sets drawn from
// the locations of both. TLC recomputes the truth from the logged projections.

type rgen struct {
	r *rand.Rand
}

var rkeys = []string{"a", "b", "c", "k1", "", "x y", "0", "a.b", "a[0]"} // the last two print like the paths a->b and a->[0]

func (g *rgen) leaf() abs {
	switch g.r.Intn(11) {
	case 0:
		return aNull()
	case 1:
		return aBool(g.r.Intn(2) == 0)
	case 2:
		return aInt(int64(g.r.Intn(7) - 3))
	case 3:
		return aInt(int64(g.r.Intn(1<<20)) * int64(1-2*g.r.Intn(2)))
	case 4:
		return aFlt(int64(g.r.Intn(9)-4), g.r.Intn(3))
	case 5:
		return aStr([]string{"", "x", "y", "abc", "1", "null"}[g.r.Intn(6)])
	case 6:
		return aTime(int64(g.r.Intn(3)))
	case 7:
		// beyond TLC's small integers but inside int64: carried as a decimal record
		return abs{"t": "int", "dec": absval.Dec(strconv.FormatInt(int64(1)<<40+int64(g.r.Intn(3)), 10))}
	case 8:
		// near neighbours beyond 2^53 and at the ends of int64 (base + off, see bigBases): float64 cannot tell them apart
		return g.bigInt()
	case 9:
		// the boundaries of the narrow Go integer kinds and float specials
		if g.r.Intn(3) == 0 {
			return abs{"t": "flt", "s": []string{"3.4028234663852886e+38", "5e-324", "1.7976931348623157e+308", "+Inf", "-Inf", "1.401298464324817e-45"}[g.r.Intn(6)]}
		}
		return aInt([]int64{127, -128, 128, 255, 32767, -32768, 32768, 65535, 1 << 24, -1}[g.r.Intn(10)])
	default:
		return aInt(1)
	}
}

var bigNames = []string{"p31", "n31", "p32", "p53", "n53", "p62", "max", "min", "u63", "umax"}

func (g *rgen) bigInt() abs {
	return abs{"t": "int", "big": bigNames[g.r.Intn(len(bigNames))], "off": g.r.Intn(4)}
}

func (g *rgen) tree(depth int) abs {
	if depth <= 0 || g.r.Intn(5) < 2 {
		return g.leaf()
	}
	n := g.r.Intn(4)
	if g.r.Intn(2) == 0 {
		e := make([]any, n)
		for i := range e {
			e[i] = g.tree(depth - 1)
		}
		return aArr(e...)
	}
	m := map[string]any{}
	for i := 0; i < n; i++ {
		m[rkeys[g.r.Intn(len(rkeys))]] = g.tree(depth - 1)
	}
	return aObj(m)
}

func clone(v abs) abs {
	b, _ := json.Marshal(v)
	var out any
	d := json.NewDecoder(bytes.NewReader(b))
	d.UseNumber()
	d.Decode(&out)
	return out.(abs)
}

// perturb returns a copy of v with one random change somewhere.
func (g *rgen) perturb(v abs, depth int) abs {
	switch v["t"] {
	case "arr":
		l, _ := v["v"].([]any)
		switch k := g.r.Intn(6); {
		case k == 0:
			return aArr(append(append([]any{}, l...), g.tree(1))...)
		case k == 1 && len(l) > 0:
			return aArr(append([]any{}, l[:len(l)-1]...)...)
		case k == 2:
			return g.tree(1)
		case len(l) > 0:
			i := g.r.Intn(len(l))
			nl := append([]any{}, l...)
			nl[i] = g.perturb(l[i].(abs), depth+1)
			return aArr(nl...)
		}
		return g.leaf()
	case "obj":
		m := objMap(v)
		keys := make([]string, 0, len(m))
		for _, k := range v["k"].([]any) {
			keys = append(keys, k.(string))
		}
		switch k := g.r.Intn(7); {
		case k == 0:
			m[rkeys[g.r.Intn(len(rkeys))]] = g.tree(1)
		case k == 1:
			m[rkeys[g.r.Intn(len(rkeys))]] = aNull()
		case k == 2 && len(keys) > 0:
			delete(m, keys[g.r.Intn(len(keys))])
		case k == 3:
			return g.tree(1)
		case len(keys) > 0:
			kk := keys[g.r.Intn(len(keys))]
			m[kk] = g.perturb(m[kk].(abs), depth+1)
		default:
			return g.leaf()
		}
		return aObj(m)
	case "int":
		if _, ok := v["v"]; ok && g.r.Intn(3) == 0 {
			return aFlt(num(v["v"]), 0) // int <-> equal float
		}
		if b, ok := v["big"]; ok && g.r.Intn(4) != 0 {
			// a near neighbour: one to three apart
			off := int(num(v["off"]))
			for {
				if n := g.r.Intn(4); n != off {
					return abs{"t": "int", "big": b, "off": n}
				}
			}
		}
	case "flt":
		if q, ok := v["q"].([]any); ok && num(q[1]) == 0 && g.r.Intn(2) == 0 {
			return aInt(num(q[0]))
		}
	}
	return g.leaf()
}

func locsOf(v abs, p []any, out *[][]any) {
	*out = append(*out, append([]any{}, p...))
	switch v["t"] {
	case "arr":
		l, _ := v["v"].([]any)
		for i, e := range l {
			locsOf(e.(abs), append(p, abs{"t": "i", "v": i}), out)
		}
	case "obj":
		ks, _ := v["k"].([]any)
		vs, _ := v["v"].([]any)
		for i, k := range ks {
			locsOf(vs[i].(abs), append(p, abs{"t": "k", "v": k}), out)
		}
	}
}

func (g *rgen) ignPath(locs [][]any) []any {
	p := append([]any{}, locs[g.r.Intn(len(locs))]...)
	if len(p) == 0 {
		return []any{abs{"t": "i", "v": g.r.Intn(3)}}
	}
	switch g.r.Intn(6) {
	case 0: // wildcard somewhere
		p[g.r.Intn(len(p))] = abs{"t": "w", "v": 0}
	case 1: // neighbouring index
		for i, c := range p {
			if m := c.(abs); m["t"] == "i" {
				p[i] = abs{"t": "i", "v": int(num(m["v"])) + 1}
				break
			}
		}
	case 2: // parent
		if len(p) > 1 {
			p = p[:len(p)-1]
		}
	case 3: // trailing wildcard: the children of the named node (nothing, if it is a scalar)
		p = append(p, abs{"t": "w", "v": 0})
	}
	return p
}

// deepPair wraps a bottom container with 3..5 members in a chain of 2..12 arrays/objects and perturbs two or more
// of the bottom members.
func (g *rgen) deepPair() (abs, abs) {
	n := 3 + g.r.Intn(3)
	isArr := g.r.Intn(2) == 0
	mk := func(vals []any) abs {
		if isArr {
			return aArr(vals...)
		}
		m := map[string]any{}
		for i, v := range vals {
			m[string(rune('a'+i))] = v
		}
		return aObj(m)
	}
	va := make([]any, n)
	vb := make([]any, n)
	for i := range va {
		va[i] = g.leaf()
		vb[i] = va[i]
	}
	for changed := 0; changed < 2; {
		i := g.r.Intn(n)
		nv := g.leaf()
		if fmt.Sprint(nv) != fmt.Sprint(va[i]) && fmt.Sprint(vb[i]) == fmt.Sprint(va[i]) {
			vb[i] = nv
			changed++
		}
	}
	a, b := mk(va), mk(vb)
	for d := 2 + g.r.Intn(11); d > 0; d-- {
		switch g.r.Intn(3) {
		case 0:
			a, b = aArr(a), aArr(b)
		case 1:
			pre := g.leaf()
			a, b = aArr(pre, a), aArr(pre, b)
		default:
			k := rkeys[g.r.Intn(len(rkeys))]
			a, b = aObj(map[string]any{k: a}), aObj(map[string]any{k: b})
		}
	}
	return a, b
}

// edgePairs: float / int64 against unsigned values at 2^63, 2^64-2048 (the largest float below 2^64) and MaxUint64, in
// both argument orders (diffexec runs both), bare and nested; emitted on every run.
func edgePairs(enc *json.Encoder) {
	us := []abs{{"t": "int", "big": "u63", "off": 1}, {"t": "int", "big": "u63", "off": 2}, {"t": "int", "big": "umax", "off": 3},
		{"t": "int", "big": "umax", "off": 2}, {"t": "int", "big": "u2048", "off": 0}, {"t": "int", "big": "u2048", "off": 1}}
	others := []abs{{"t": "flt", "s": "9.223372036854775808e+18"}, {"t": "flt", "s": "-9.223372036854775808e+18"},
		{"t": "flt", "s": "1.8446744073709549568e+19"}, {"t": "flt", "s": "1.8446744073709551616e+19"}, {"t": "flt", "s": "9.223372036854777856e+18"},
		{"t": "flt", "s": "1.5"}, {"t": "int", "big": "min", "off": 0}, {"t": "int", "big": "min", "off": 1}, {"t": "int", "big": "max", "off": 3},
		aInt(-1), aInt(-2), aInt(-2048), {"t": "int", "big": "u63", "off": 1}, {"t": "int", "big": "umax", "off": 3}}
	n := 0
	for _, u := range us {
		for _, o := range others {
			n++
			wrap := func(x abs) abs { return x }
			switch n % 3 {
			case 1:
				wrap = func(x abs) abs { return aArr(aInt(0), x) }
			case 2:
				wrap = func(x abs) abs { return aObj(map[string]any{"a": x, "b": aNull()}) }
			}
			enc.Encode(abs{"a": wrap(u), "b": wrap(o), "igs": [][]any{{}}, "salt": 1000 + n})
		}
	}
}

func diffRand(args []string) {
	fs := flag.NewFlagSet("diffrand", flag.ExitOnError)
	n := fs.Int("n", 1000, "number of pairs")
	fs.Parse(args)
	seed, _ := strconv.ParseInt(os.Getenv("VERIF_SEED"), 10, 64)
	g := &rgen{r: rand.New(rand.NewSource(seed*7919 + 17))}
	out := bufio.NewWriterSize(os.Stdout, 1<<20)
	defer out.Flush()
	enc := json.NewEncoder(out)
	edgePairs(enc)
	for i := 0; i < *n; i++ {
		a := g.tree(1 + g.r.Intn(4))
		var b abs
		if i%8 == 7 {
			// deep and narrow: several differences under one parent far down (path lengths 3..13)
			a, b = g.deepPair()
			var locs [][]any
			locsOf(a, nil, &locs)
			locsOf(b, nil, &locs)
			igs := [][]any{{}}
			for k := g.r.Intn(3); k > 0; k-- {
				igs = append(igs, []any{g.ignPath(locs[len(locs)/2:])})
			}
			enc.Encode(abs{"a": a, "b": b, "igs": igs, "salt": 1 + g.r.Intn(1<<29)})
			continue
		}
		switch g.r.Intn(8) {
		case 0:
			b = g.tree(1 + g.r.Intn(3))
		case 1:
			b = clone(a)
		default:
			b = clone(a)
			for k := 1 + g.r.Intn(3); k > 0; k-- {
				b = g.perturb(b, 0)
			}
		}
		var locs [][]any
		locsOf(a, nil, &locs)
		locsOf(b, nil, &locs)
		igs := [][]any{{}}
		for k := g.r.Intn(6); k > 0; k-- {
			set := []any{g.ignPath(locs)}
			for g.r.Intn(2) == 0 && len(set) < 3 {
				set = append(set, g.ignPath(locs))
			}
			igs = append(igs, set)
		}
		enc.Encode(abs{"a": a, "b": b, "igs": igs, "salt": 1 + g.r.Intn(1<<29)})
	}
}
