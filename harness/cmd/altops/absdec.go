package main

import (
	"encoding/json"
	"fmt"
	"math"
	"math/big"
	"sort"
	"strconv"
	"strings"
	"time"

	"github.com/ohler55/ojg/gen"
)

// The abstract value encoding (DESIGN 4.1, harness/absval with string atoms) read back into Go data.
// Accepted leaf forms: what absval emits ({"t":"flt","s":..}, {"t":"time","ns":".."}, {"t":"int","dec":{..}})
// and what the TLC generator modules emit ({"t":"flt","q":[n,k]}, {"t":"time","sec":n}).

type abs = map[string]any

func num(v any) int64 {
	switch t := v.(type) {
	case json.Number:
		i, err := t.Int64()
		if err != nil {
			f, _ := t.Float64()
			return int64(f)
		}
		return i
	case float64:
		return int64(t)
	case int:
		return int64(t)
	case int64:
		return t
	}
	panic(fmt.Sprintf("not a number: %#v", v))
}

func decText(d any) string {
	m := d.(abs)
	var sb strings.Builder
	if b, _ := m["neg"].(bool); b {
		sb.WriteByte('-')
	}
	digits, _ := m["digits"].([]any)
	if len(digits) == 0 {
		sb.WriteByte('0')
	}
	for _, x := range digits {
		sb.WriteByte(byte('0' + num(x)))
	}
	if e := num(m["exp10"]); e != 0 {
		sb.WriteString("e" + strconv.FormatInt(e, 10))
	}
	return sb.String()
}

// splitmix-style deterministic choice stream so that a case replays with the same Go widths
type salt struct{ s uint64 }

func (r *salt) next() uint64 {
	r.s += 0x9e3779b97f4a7c15
	z := r.s
	z = (z ^ (z >> 30)) * 0xbf58476d1ce4e5b9
	z = (z ^ (z >> 27)) * 0x94d049bb133111eb
	return z ^ (z >> 31)
}

// bigBases are the bases of the generator's integers beyond TLC's range: value = base + off (off in 0..3).
var bigBases = map[string]int64{"p31": 1<<31 - 2, "n31": -(1 << 31) - 1, "p32": 1<<32 - 3, "p53": 1 << 53, "n53": -(1 << 53) - 3, "p62": 1 << 62,
	"max": math.MaxInt64 - 3, "min": math.MinInt64}

// unsigned bases cross or lie beyond MaxInt64
var ubigBases = map[string]uint64{"u63": 1<<63 - 1, "umax": math.MaxUint64 - 3, "u2048": math.MaxUint64 - 2047}

func absInt(m abs) (int64, uint64, bool) { // value, as uint64, isBigUnsigned
	if v, ok := m["v"]; ok {
		return num(v), 0, false
	}
	if b, ok := m["big"].(string); ok {
		if ub, isU := ubigBases[b]; isU {
			u := ub + uint64(num(m["off"]))
			if u <= math.MaxInt64 {
				return int64(u), 0, false
			}
			return 0, u, true
		}
		return bigBases[b] + num(m["off"]), 0, false
	}
	txt := decText(m["dec"])
	r, _ := new(big.Rat).SetString(txt)
	bi := new(big.Int).Div(r.Num(), r.Denom())
	if bi.IsInt64() {
		return bi.Int64(), 0, false
	}
	return 0, bi.Uint64(), true
}

func absFloat(m abs) float64 {
	if q, ok := m["q"].([]any); ok && m["s"] == nil {
		return float64(num(q[0])) / float64(int64(1)<<uint(num(q[1])))
	}
	f, err := strconv.ParseFloat(m["s"].(string), 64)
	if err != nil {
		panic(err)
	}
	return f
}

func absTime(m abs) time.Time {
	if nss, ok := m["ns"].(string); ok { // a logged projection (absval): nanoseconds since the epoch
		ns, _ := strconv.ParseInt(nss, 10, 64)
		return time.Unix(0, ns).UTC()
	}
	return time.Unix(1700000000+num(m["sec"]), 0).UTC() // generator form: small second offsets
}

// widthInt picks one of the Go integer types that can hold i.
func widthInt(i int64, r *salt) any {
	if r == nil {
		return i
	}
	for {
		switch r.next() % 10 {
		case 0:
			return int(i)
		case 1:
			return i
		case 2:
			if math.MinInt8 <= i && i <= math.MaxInt8 {
				return int8(i)
			}
		case 3:
			if math.MinInt16 <= i && i <= math.MaxInt16 {
				return int16(i)
			}
		case 4:
			if math.MinInt32 <= i && i <= math.MaxInt32 {
				return int32(i)
			}
		case 5:
			if 0 <= i {
				return uint(i)
			}
		case 6:
			if 0 <= i && i <= math.MaxUint8 {
				return uint8(i)
			}
		case 7:
			if 0 <= i && i <= math.MaxUint16 {
				return uint16(i)
			}
		case 8:
			if 0 <= i && i <= math.MaxUint32 {
				return uint32(i)
			}
		case 9:
			if 0 <= i {
				return uint64(i)
			}
		}
	}
}

// toSimple builds simple Go data; r != nil varies the integer widths (and float32 where exact).
func toSimple(v any, r *salt) any {
	m := v.(abs)
	switch m["t"] {
	case "null":
		return nil
	case "bool":
		return m["v"].(bool)
	case "int":
		i, u, big := absInt(m)
		if big {
			if r != nil && r.next()%2 == 0 {
				return uint(u)
			}
			return u
		}
		return widthInt(i, r)
	case "flt":
		f := absFloat(m)
		if r != nil && r.next()%3 == 0 && float64(float32(f)) == f {
			return float32(f)
		}
		return f
	case "str":
		return m["v"].(string)
	case "time":
		return absTime(m)
	case "big":
		return json.Number(m["lit"].(string))
	case "arr":
		l, _ := m["v"].([]any)
		a := make([]any, len(l))
		for i, e := range l {
			a[i] = toSimple(e, r)
		}
		return a
	case "obj":
		ks, _ := m["k"].([]any)
		vs, _ := m["v"].([]any)
		o := make(map[string]any, len(ks))
		for i, k := range ks {
			o[k.(string)] = toSimple(vs[i], r)
		}
		return o
	}
	panic(fmt.Sprintf("unknown abstract value %v", m))
}

func toGen(v any) gen.Node {
	m := v.(abs)
	switch m["t"] {
	case "null":
		return nil
	case "bool":
		return gen.Bool(m["v"].(bool))
	case "int":
		i, u, big := absInt(m)
		if big {
			return gen.Int(int64(u))
		}
		return gen.Int(i)
	case "flt":
		return gen.Float(absFloat(m))
	case "str":
		return gen.String(m["v"].(string))
	case "time":
		return gen.Time(absTime(m))
	case "big":
		return gen.Big(m["lit"].(string))
	case "arr":
		l, _ := m["v"].([]any)
		a := make(gen.Array, len(l))
		for i, e := range l {
			a[i] = toGen(e)
		}
		return a
	case "obj":
		ks, _ := m["k"].([]any)
		vs, _ := m["v"].([]any)
		o := make(gen.Object, len(ks))
		for i, k := range ks {
			o[k.(string)] = toGen(vs[i])
		}
		return o
	}
	panic(fmt.Sprintf("unknown abstract value %v", m))
}

// constructors of abstract values for the random generators
func aNull() abs         { return abs{"t": "null"} }
func aBool(b bool) abs   { return abs{"t": "bool", "v": b} }
func aInt(i int64) abs   { return abs{"t": "int", "v": i} }
func aStr(s string) abs  { return abs{"t": "str", "v": s} }
func aTime(sec int64) abs { return abs{"t": "time", "sec": sec} }
func aFlt(n int64, k int) abs {
	for k > 0 && n%2 == 0 {
		n /= 2
		k--
	}
	return abs{"t": "flt", "q": []any{n, int64(k)}}
}
func aArr(e ...any) abs {
	if e == nil {
		e = []any{}
	}
	return abs{"t": "arr", "v": e}
}
func aObj(m map[string]any) abs {
	keys := make([]string, 0, len(m))
	for k := range m {
		keys = append(keys, k)
	}
	sort.Strings(keys)
	ks := make([]any, len(keys))
	vs := make([]any, len(keys))
	for i, k := range keys {
		ks[i] = k
		vs[i] = m[k]
	}
	return abs{"t": "obj", "k": ks, "v": vs}
}
func objMap(o abs) map[string]any {
	ks, _ := o["k"].([]any)
	vs, _ := o["v"].([]any)
	m := make(map[string]any, len(ks))
	for i, k := range ks {
		m[k.(string)] = vs[i]
	}
	return m
}
