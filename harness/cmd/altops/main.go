// Command altops drives the alt/gen operations of ojg for C19 (Diff, Compare, Match) and C18
// (Generify, Simplify, Dup, Decompose, Alter and the writer/parser cross-checks).
//
//	altops diffexec            < cases.ndjson > trace.ndjson   (replay (a, b, ignore sets) on simple and gen data)
//	altops diffrand -n N       > cases.ndjson                  (seeded random pairs, VERIF_SEED)
//	altops convexec            < cases.ndjson > trace.ndjson   (Build; op; Mutate; Observe behaviours)
//	altops convrand -n N       > cases.ndjson                  (seeded random trees / JSON texts for the cross-checks)
//
// It only builds data, calls ojg and records what came back; every verdict is taken by TLC
// (spec/TraceDiff.tla, spec/TraceConvert.tla).
package main

import (
	"fmt"
	"os"
)

func main() {
	if len(os.Args) < 2 {
		fmt.Fprintln(os.Stderr, "usage: altops diffexec|diffrand|convexec|convrand ...")
		os.Exit(2)
	}
	switch os.Args[1] {
	case "diffexec":
		diffExec(os.Args[2:])
	case "diffrand":
		diffRand(os.Args[2:])
	default:
		if !convMain(os.Args[1], os.Args[2:]) {
			fmt.Fprintln(os.Stderr, "unknown mode", os.Args[1])
			os.Exit(2)
		}
	}
}
