package main

import (
	"bufio"
	"bytes"
	"encoding/hex"
	"encoding/json"
	"flag"
	"fmt"
	"math"
	"math/rand"
	"os"
	"sort"
	"strconv"
	"strings"
	"time"

	"github.com/ohler55/ojg"
	"github.com/ohler55/ojg/alt"
	"github.com/ohler55/ojg/gen"
	"github.com/ohler55/ojg/oj"
	"github.com/ohler55/ojg/pretty"
	"github.com/ohler55/ojg/sen"

	"verif/harness/absval"
	"verif/harness/plib"
)

// ---------------------------------------------------------------------------------------------
// C18: Build; op; Mutate; Observe behaviours on real data, and the writer / parser cross-checks.
//
// case lines (field "ev"):
//   {"ev":"conv","op":..,"tree":typed,"muts":[{"side":"in"|"res","path":[1-based child positions],"kind":..}]}
//   {"ev":"write","tree":typed simple tree}
//   {"ev":"parse","text":"..."}
// trace lines:
//   conv : {"ev","op","in","in1","res","pan","muts":[{"side","path","kind","in","res","pan"}]}   (typed projections)
//   write: {"ev","nodes":[{"g","outs":[{"w","s","x"}]}]}   every subtree, children before parents
//   parse: {"ev","text","gerr","oerr","g","o"}
// typed projection = absval (string atoms) + "g": the Go type of every node; float leaves also carry
// "s32", the shortest text of the value rounded to float32.

var keepOpt = &ojg.Options{OmitNil: false, TimeFormat: "time"} // keeps nulls and times (allowance B4)

func typed(v any) any {
	var m abs
	switch t := v.(type) {
	case []any:
		a := make([]any, len(t))
		for i, e := range t {
			a[i] = typed(e)
		}
		return abs{"t": "arr", "g": "[]any", "v": a, "nil": t == nil}
	case gen.Array:
		a := make([]any, len(t))
		for i, e := range t {
			a[i] = typedNode(e)
		}
		return abs{"t": "arr", "g": "gen.Array", "v": a, "nil": t == nil}
	case map[string]any:
		keys := make([]string, 0, len(t))
		for k := range t {
			keys = append(keys, k)
		}
		sort.Strings(keys)
		ks, vs := make([]any, len(keys)), make([]any, len(keys))
		for i, k := range keys {
			ks[i], vs[i] = k, typed(t[k])
		}
		return abs{"t": "obj", "g": "map[string]any", "k": ks, "v": vs, "nil": t == nil}
	case gen.Object:
		keys := make([]string, 0, len(t))
		for k := range t {
			keys = append(keys, k)
		}
		sort.Strings(keys)
		ks, vs := make([]any, len(keys)), make([]any, len(keys))
		for i, k := range keys {
			ks[i], vs[i] = k, typedNode(t[k])
		}
		return abs{"t": "obj", "g": "gen.Object", "k": ks, "v": vs, "nil": t == nil}
	case nil:
		return abs{"t": "null", "g": "nil"}
	default:
		m, _ = absval.Atoms(v).(map[string]any)
	}
	m["g"] = fmt.Sprintf("%T", v)
	if m["t"] == "time" {
		// a time.Time is more than its instant: the location is part of the value ("exactly"); zn/zo = zone name and
		// offset (seconds east of UTC) at that instant
		var tt time.Time
		switch t := v.(type) {
		case time.Time:
			tt = t
		case gen.Time:
			tt = time.Time(t)
		}
		m["zn"], m["zo"] = tt.Zone()
	}
	if m["t"] == "flt" {
		var f float64
		switch t := v.(type) {
		case float32:
			f = float64(t)
		case float64:
			f = t
		case gen.Float:
			f = float64(t)
		}
		m["s32"] = strconv.FormatFloat(float64(float32(f)), 'g', -1, 32)
	}
	if m["t"] == "big" {
		delete(m, "dec") // big numbers: the text is the value
	}
	return m
}

func typedNode(n gen.Node) any {
	if n == nil {
		return abs{"t": "null", "g": "nil"}
	}
	return typed(n)
}

// unhex: strings and keys of case trees may be written "hex:<bytes>" so that any byte sequence (invalid UTF-8, control
// characters) survives the JSON case file.
func unhex(s string) string {
	if strings.HasPrefix(s, "hex:") {
		if b, err := hex.DecodeString(s[4:]); err == nil {
			return string(b)
		}
	}
	return s
}

func hexed(s string) string {
	for i := 0; i < len(s); i++ {
		if s[i] < 0x20 || s[i] >= 0x7f {
			return "hex:" + hex.EncodeToString([]byte(s))
		}
	}
	return s
}

// fromTyped builds the Go value a typed tree describes (Go type taken from "g").
func fromTyped(v any) any {
	m := v.(abs)
	g, _ := m["g"].(string)
	switch m["t"] {
	case "null":
		return nil
	case "bool":
		if g == "gen.Bool" {
			return gen.Bool(m["v"].(bool))
		}
		return m["v"].(bool)
	case "int":
		i, u, big := absInt(m)
		if big {
			return u
		}
		switch g {
		case "int":
			return int(i)
		case "int8":
			return int8(i)
		case "int16":
			return int16(i)
		case "int32":
			return int32(i)
		case "uint":
			return uint(i)
		case "uint8":
			return uint8(i)
		case "uint16":
			return uint16(i)
		case "uint32":
			return uint32(i)
		case "uint64":
			return uint64(i)
		case "gen.Int":
			return gen.Int(i)
		}
		return i
	case "flt":
		f := absFloat(m)
		switch g {
		case "float32":
			return float32(f)
		case "gen.Float":
			return gen.Float(f)
		}
		return f
	case "str":
		if g == "gen.String" {
			return gen.String(unhex(m["v"].(string)))
		}
		return unhex(m["v"].(string))
	case "time":
		var t time.Time
		if _, logged := m["ns"].(string); logged {
			t = absTime(m)
		} else if ns, ok := m["nsec"]; ok { // generator form with nanoseconds
			t = time.Unix(1700000000+num(m["sec"]), num(ns)).UTC()
		} else {
			t = absTime(m)
		}
		if zn, ok := m["zn"].(string); ok && !(zn == "UTC" && num(m["zo"]) == 0) {
			t = t.In(time.FixedZone(zn, int(num(m["zo"]))))
		}
		if g == "gen.Time" {
			return gen.Time(t)
		}
		return t
	case "big":
		if g == "gen.Big" {
			return gen.Big(m["text"].(string))
		}
		return json.Number(m["text"].(string))
	case "arr":
		l, _ := m["v"].([]any)
		if g == "gen.Array" {
			a := make(gen.Array, len(l))
			for i, e := range l {
				if x := fromTyped(e); x != nil {
					a[i] = x.(gen.Node)
				}
			}
			return a
		}
		a := make([]any, len(l))
		for i, e := range l {
			a[i] = fromTyped(e)
		}
		return a
	case "obj":
		ks, _ := m["k"].([]any)
		vs, _ := m["v"].([]any)
		if g == "gen.Object" {
			o := make(gen.Object, len(ks))
			for i, k := range ks {
				if x := fromTyped(vs[i]); x != nil {
					o[unhex(k.(string))] = x.(gen.Node)
				} else {
					o[unhex(k.(string))] = nil
				}
			}
			return o
		}
		o := make(map[string]any, len(ks))
		for i, k := range ks {
			o[unhex(k.(string))] = fromTyped(vs[i])
		}
		return o
	}
	panic(fmt.Sprintf("unknown typed value %v", m))
}

func asNode(v any) gen.Node {
	if v == nil {
		return nil
	}
	return v.(gen.Node)
}

func nodeAny(n gen.Node) any {
	if n == nil {
		return nil
	}
	return n
}

// curOpt: the option set of the case being run ("opt" of the case line; keepOpt when none).
var curOpt = keepOpt

func i64If(x int64, out any) func(int64) (any, bool) {
	return func(v int64) (any, bool) { return out, v == x }
}

// optSets: option sets that change what the copying operations return. Under every one of them the operation must
// still leave its input alone and share nothing with it (Convert.tla, law B6).
var optSets = map[string]func(o *ojg.Options){
	"mongo":   func(o *ojg.Options) { c := ojg.MongoConverter; o.Converter = &c },
	"rfc3339": func(o *ojg.Options) { c := ojg.TimeRFC3339Converter; o.Converter = &c },
	"nano":    func(o *ojg.Options) { c := ojg.TimeNanoConverter; o.Converter = &c },
	"intf":    func(o *ojg.Options) { o.Converter = &ojg.Converter{Int: []func(int64) (any, bool){i64If(7, "seven")}} },
	"fltf": func(o *ojg.Options) {
		o.Converter = &ojg.Converter{Float: []func(float64) (any, bool){func(v float64) (any, bool) { return "f", v == 1.5 }}}
	},
	"strf": func(o *ojg.Options) {
		o.Converter = &ojg.Converter{String: []func(string) (any, bool){func(v string) (any, bool) { return int64(1), v == "x" }}}
	},
	"mapf":      func(o *ojg.Options) { o.Converter = &ojg.Converter{Map: []func(map[string]any) (any, bool){mapFn}} },
	"arrf":      func(o *ojg.Options) { o.Converter = &ojg.Converter{Array: []func([]any) (any, bool){arrFn}} },
	"mapf+arrf": func(o *ojg.Options) { o.Converter = &ojg.Converter{Map: []func(map[string]any) (any, bool){mapFn}, Array: []func([]any) (any, bool){arrFn}} },
	"timef": func(o *ojg.Options) { // a Map function that builds a time (what MongoConverter does for $date)
		o.Converter = &ojg.Converter{Map: []func(map[string]any) (any, bool){func(v map[string]any) (any, bool) {
			if s, ok := v["@t"].(string); ok && len(v) == 1 {
				if t, err := time.Parse(time.RFC3339, s); err == nil {
					return t, true
				}
			}
			return v, false
		}}}
	},
	"allf": func(o *ojg.Options) {
		o.Converter = &ojg.Converter{Int: []func(int64) (any, bool){i64If(7, "seven")},
			Float:  []func(float64) (any, bool){func(v float64) (any, bool) { return "f", v == 1.5 }},
			String: []func(string) (any, bool){func(v string) (any, bool) { return int64(1), v == "x" }},
			Map:    []func(map[string]any) (any, bool){mapFn}, Array: []func([]any) (any, bool){arrFn}}
	},
	"omitnil":   func(o *ojg.Options) { o.OmitNil = true },
	"omitempty": func(o *ojg.Options) { o.OmitEmpty = true },
	"timefmt":   func(o *ojg.Options) { o.TimeFormat = time.RFC3339Nano },
	"timemap":   func(o *ojg.Options) { o.TimeFormat = time.RFC3339Nano; o.TimeMap = true; o.CreateKey = "^" },
	"timewrap":  func(o *ojg.Options) { o.TimeFormat = "nano"; o.TimeWrap = "@" },
}

func mapFn(v map[string]any) (any, bool) {
	if _, ok := v["m"]; ok && len(v) == 1 {
		return "M", true
	}
	return v, false
}

func arrFn(v []any) (any, bool) {
	if len(v) == 1 && v[0] == "m" {
		return "A", true
	}
	return v, false
}

func optFor(name string) *ojg.Options {
	if name == "" || name == "none" {
		return keepOpt
	}
	f := optSets[name]
	if f == nil {
		panic("unknown option set " + name)
	}
	o := *keepOpt
	f(&o)
	return &o
}

// applyOp runs one operation of the property on in.
func applyOp(op string, in any) any {
	keepOpt := curOpt
	switch op {
	case "alt.Generify":
		return nodeAny(alt.Generify(in, keepOpt))
	case "alt.GenAlter":
		return nodeAny(alt.GenAlter(in, keepOpt))
	case "gen.Simplify":
		if n := asNode(in); n != nil {
			return n.Simplify()
		}
		return nil
	case "gen.Dup":
		if n := asNode(in); n != nil {
			return nodeAny(n.Dup())
		}
		return nil
	case "gen.Alter":
		if n := asNode(in); n != nil {
			return n.Alter()
		}
		return nil
	case "alt.Dup":
		return alt.Dup(in, keepOpt)
	case "alt.Decompose":
		return alt.Decompose(in, keepOpt)
	case "alt.Alter":
		return alt.Alter(in, keepOpt)
	case "Generify+Simplify":
		return applyOp("gen.Simplify", applyOp("alt.Generify", in))
	case "Generify+Alter":
		return applyOp("gen.Alter", applyOp("alt.Generify", in))
	case "GenAlter+Simplify":
		return applyOp("gen.Simplify", applyOp("alt.GenAlter", in))
	case "GenAlter+Alter":
		return applyOp("gen.Alter", applyOp("alt.GenAlter", in))
	}
	panic("unknown op " + op)
}

var inPlace = map[string]bool{"alt.GenAlter": true, "gen.Alter": true, "alt.Alter": true, "Generify+Alter": true,
	"GenAlter+Simplify": true, "GenAlter+Alter": true}

const mutKey = "~"

// mutate applies kind to the container under path (1-based child positions, object members in key
// order) and returns the possibly new root (append makes a new slice header that is stored in the parent).
func mutate(v any, path []int, kind string) any {
	if len(path) > 0 {
		j := path[0] - 1
		switch t := v.(type) {
		case []any:
			t[j] = mutate(t[j], path[1:], kind)
		case gen.Array:
			t[j] = asNode(mutate(nodeAny(t[j]), path[1:], kind))
		case map[string]any:
			k := sortedKeys(len(t), func(f func(string)) {
				for k := range t {
					f(k)
				}
			})[j]
			t[k] = mutate(t[k], path[1:], kind)
		case gen.Object:
			k := sortedKeys(len(t), func(f func(string)) {
				for k := range t {
					f(k)
				}
			})[j]
			t[k] = asNode(mutate(nodeAny(t[k]), path[1:], kind))
		default:
			panic(fmt.Sprintf("mutation path leaves the containers at %T", v))
		}
		return v
	}
	switch t := v.(type) {
	case []any:
		if kind == "set0" {
			t[0] = "MUT!"
			return t
		}
		return append(t, "MUT!")
	case gen.Array:
		if kind == "set0" {
			t[0] = gen.String("MUT!")
			return t
		}
		return append(t, gen.String("MUT!"))
	case map[string]any:
		if kind == "setkey" {
			t[mutKey] = "MUT!"
		} else {
			delete(t, sortedKeys(len(t), func(f func(string)) {
				for k := range t {
					f(k)
				}
			})[0])
		}
		return t
	case gen.Object:
		if kind == "setkey" {
			t[mutKey] = gen.String("MUT!")
		} else {
			delete(t, sortedKeys(len(t), func(f func(string)) {
				for k := range t {
					f(k)
				}
			})[0])
		}
		return t
	}
	panic(fmt.Sprintf("mutation target is not a container: %T", v))
}

func sortedKeys(n int, each func(func(string))) []string {
	keys := make([]string, 0, n)
	each(func(k string) { keys = append(keys, k) })
	sort.Strings(keys)
	return keys
}

type mutSpec struct {
	Side string `json:"side"`
	Path []int  `json:"path"`
	Kind string `json:"kind"`
}

type convCase struct {
	Ev   string    `json:"ev"`
	Op   string    `json:"op"`
	Tree any       `json:"tree"`
	Muts []mutSpec `json:"muts"`
	Text string    `json:"text"`
	Opt  string    `json:"opt"`
	// MaxMuts caps the experiments convexec chooses itself for an option case (0 = all)
	MaxMuts int `json:"maxmuts"`
}

func convOne(c convCase) (out abs) {
	opt := c.Opt
	if opt == "" {
		opt = "none"
	}
	out = abs{"ev": "conv", "op": c.Op, "opt": opt, "pan": false, "muts": []any{}}
	curOpt = optFor(opt)
	defer func() { curOpt = keepOpt }()
	defer func() {
		if r := recover(); r != nil {
			out["pan"] = true
			out["msg"] = fmt.Sprint(r)
			for _, k := range []string{"in", "in1", "res", "mid"} {
				if out[k] == nil {
					out[k] = abs{"t": "null", "g": "nil"}
				}
			}
		}
	}()
	in := fromTyped(c.Tree)
	out["in"] = typed(in)
	var res any
	if i := strings.Index(c.Op, "+"); i > 0 {
		// a chain: log the intermediate gen tree so that each step is judged on its own
		mid := applyOp("alt."+c.Op[:i], in)
		out["mid"] = typed(mid)
		res = applyOp("gen."+c.Op[i+1:], mid)
	} else {
		res = applyOp(c.Op, in)
	}
	out["res"] = typed(res)
	if c.Op == "alt.Generify" && opt == "none" {
		// Generify and GenAlter build the same gen tree (the one copies, the other reuses): logged for the twin law
		out["twin"] = typed(applyOp("alt.GenAlter", fromTyped(c.Tree)))
	}
	if opt != "none" && len(c.Muts) == 0 && !inPlace[c.Op] {
		// the option set changes the shape of the result: the experiments are every container of the real input and
		// of the real result x every mutation kind
		for _, side := range []string{"in", "res"} {
			var paths [][]int
			var kinds [][]string
			contPaths(out[side].(abs), nil, &paths, &kinds)
			for j, p := range paths {
				for _, k := range kinds[j] {
					c.Muts = append(c.Muts, mutSpec{Side: side, Path: p, Kind: k})
				}
			}
		}
		if n := len(c.Muts); c.MaxMuts > 0 && n > c.MaxMuts {
			// an evenly spread sample (deterministic: the case replays with the same experiments)
			pick := make([]mutSpec, 0, c.MaxMuts)
			for j := 0; j < c.MaxMuts; j++ {
				pick = append(pick, c.Muts[j*n/c.MaxMuts])
			}
			c.Muts = pick
		}
	}
	if inPlace[c.Op] {
		// the input of an in-place operation must not be looked at again: its memory now holds the
		// other representation (gen.Array.Alter documents "no longer usable as the original type")
		out["in1"] = out["res"]
		return
	}
	out["in1"] = typed(in)
	muts := []any{}
	for _, m := range c.Muts {
		mo := abs{"side": m.Side, "path": m.Path, "kind": m.Kind, "pan": false}
		func() {
			defer func() {
				if r := recover(); r != nil {
					mo["pan"] = true
					mo["msg"] = fmt.Sprint(r)
					mo["in"], mo["res"] = abs{"t": "null", "g": "nil"}, abs{"t": "null", "g": "nil"}
				}
			}()
			in := fromTyped(c.Tree) // fresh heap for every experiment
			res := applyOp(c.Op, in)
			if m.Side == "in" {
				in = mutate(in, m.Path, m.Kind)
			} else {
				res = mutate(res, m.Path, m.Kind)
			}
			mo["in"], mo["res"] = typed(in), typed(res)
		}()
		muts = append(muts, mo)
	}
	out["muts"] = muts
	return
}

// ---- writer cross-check: every subtree of a simple tree against its gen equivalent (built directly) ----

func genEquivalent(v any) any {
	m := v.(abs)
	c := abs{}
	for k, x := range m {
		c[k] = x
	}
	t, _ := m["t"].(string)
	c["g"] = map[string]string{"int": "gen.Int", "flt": "gen.Float", "str": "gen.String", "bool": "gen.Bool", "time": "gen.Time",
		"big": "gen.Big", "arr": "gen.Array", "obj": "gen.Object", "null": "nil"}[t]
	if l, ok := m["v"].([]any); ok && (t == "arr" || t == "obj") {
		nl := make([]any, len(l))
		for i, e := range l {
			nl[i] = genEquivalent(e)
		}
		c["v"] = nl
	}
	return c
}

type wfun struct {
	name string
	f    func(d any, o *ojg.Options) string
}

func toBuf(f func(w *bytes.Buffer) error) string {
	var b bytes.Buffer
	if err := f(&b); err != nil {
		return "ERROR: " + err.Error()
	}
	return b.String()
}

// every writer the statement names, the Write variants and the strict writer behind oj.Marshal
var writers = []wfun{
	{"oj.JSON", func(d any, o *ojg.Options) string { return oj.JSON(d, o) }},
	{"sen.String", func(d any, o *ojg.Options) string { return sen.String(d, o) }},
	{"pretty.JSON", func(d any, o *ojg.Options) string { return pretty.JSON(d, o) }},
	{"pretty.SEN", func(d any, o *ojg.Options) string { return pretty.SEN(d, o) }},
	{"oj.Marshal", func(d any, o *ojg.Options) string {
		b, err := oj.Marshal(d, o)
		if err != nil {
			return "ERROR: " + err.Error()
		}
		return string(b)
	}},
	{"oj.Write", func(d any, o *ojg.Options) string { return toBuf(func(w *bytes.Buffer) error { return oj.Write(w, d, o) }) }},
	{"sen.Write", func(d any, o *ojg.Options) string { return toBuf(func(w *bytes.Buffer) error { return sen.Write(w, d, o) }) }},
	{"pretty.WriteJSON", func(d any, o *ojg.Options) string {
		return toBuf(func(w *bytes.Buffer) error { return pretty.WriteJSON(w, d, o) })
	}},
	{"pretty.WriteSEN", func(d any, o *ojg.Options) string {
		return toBuf(func(w *bytes.Buffer) error { return pretty.WriteSEN(w, d, o) })
	}},
}

type wopt struct {
	name string
	o    ojg.Options
}

// the option matrix of the writer cross-check (Sort always on: member order must not matter)
var wopts = []wopt{
	{"sort", ojg.Options{Sort: true}},
	{"float%.2f", ojg.Options{Sort: true, FloatFormat: "%.2f"}},
	{"float%e", ojg.Options{Sort: true, FloatFormat: "%e"}},
	{"omitnil", ojg.Options{Sort: true, OmitNil: true}},
	{"omitempty", ojg.Options{Sort: true, OmitEmpty: true}},
	{"indent2", ojg.Options{Sort: true, Indent: 2}},
	{"tab", ojg.Options{Sort: true, Tab: true}},
	{"timeRFC3339Nano", ojg.Options{Sort: true, TimeFormat: time.RFC3339Nano}},
	{"timesecond", ojg.Options{Sort: true, TimeFormat: "second"}},
	{"timewrap", ojg.Options{Sort: true, TimeWrap: "@"}},
	{"htmlsafe", ojg.Options{Sort: true, HTMLUnsafe: false}},
	{"htmlunsafe", ojg.Options{Sort: true, HTMLUnsafe: true}},
}

func writePair(w wfun, op wopt, s, x any) abs {
	call := func(d any) string {
		o := op.o // a fresh copy for every call: writers may keep state in the options
		return w.f(d, &o)
	}
	// the texts travel Go-quoted in pure ASCII: exact for every byte (control characters, invalid UTF-8, U+2028)
	return abs{"w": w.name, "opt": op.name, "s": strconv.QuoteToASCII(safeCall(call, s)), "x": strconv.QuoteToASCII(safeCall(call, x))}
}

func writeOne(c convCase) abs {
	tree := widen32(c.Tree)
	// the matrix on the whole tree first; a (writer, option set) that disagrees there is also run on every subtree so
	// that the deepest disagreeing node names the locus
	var extra [][2]int
	root := []any{}
	{
		s := fromTyped(tree)
		x := fromTyped(genEquivalent(tree))
		for wi, w := range writers {
			for oi, op := range wopts {
				if oi == 0 && wi < 5 {
					continue // the default option set of the first five writers is run on every subtree below
				}
				p := writePair(w, op, s, x)
				root = append(root, p)
				if p["s"] != p["x"] {
					extra = append(extra, [2]int{wi, oi})
				}
			}
		}
	}
	nodes := []any{}
	var walk func(v any, isRoot bool)
	walk = func(v any, isRoot bool) {
		m := v.(abs)
		if t := m["t"]; t == "arr" || t == "obj" {
			for _, e := range m["v"].([]any) {
				walk(e, false)
			}
		}
		s := fromTyped(v)
		x := fromTyped(genEquivalent(v))
		outs := []any{}
		for _, w := range writers[:5] {
			outs = append(outs, writePair(w, wopts[0], s, x))
			if w.name == "oj.Marshal" {
				// the strict writer also on the round trip through the other form
				o := wopts[0].o
				f := func(d any) string { return w.f(d, &o) }
				rt := safeCall(func(d any) string {
					g := alt.Generify(d, keepOpt)
					if g == nil {
						return f(nil)
					}
					return f(g.Simplify())
				}, s)
				outs = append(outs, abs{"w": "oj.Marshal(Simplify(Generify))", "opt": "sort", "s": strconv.QuoteToASCII(safeCall(f, s)), "x": strconv.QuoteToASCII(rt)})
			}
		}
		if isRoot {
			outs = append(outs, root...)
		} else {
			for _, e := range extra {
				outs = append(outs, writePair(writers[e[0]], wopts[e[1]], s, x))
			}
		}
		nodes = append(nodes, abs{"g": fmt.Sprintf("%T", s), "outs": outs})
	}
	walk(tree, true)
	return abs{"ev": "write", "nodes": nodes}
}

func typedOf(v any) any { return v }

// widen32 replaces float32 leaves by the float64 of the same value: the simple equivalent of a gen tree
// (Simplify) has float64 only, and the writers deliberately print a float32 with 32-bit precision.
func widen32(v any) any {
	m := v.(abs)
	c := abs{}
	for k, x := range m {
		c[k] = x
	}
	if m["t"] == "flt" && m["g"] == "float32" {
		c["g"] = "float64"
	}
	if l, ok := m["v"].([]any); ok && (m["t"] == "arr" || m["t"] == "obj") {
		nl := make([]any, len(l))
		for i, e := range l {
			nl[i] = widen32(e)
		}
		c["v"] = nl
	}
	return c
}

func safeCall(f func(any) string, d any) (s string) {
	defer func() {
		if r := recover(); r != nil {
			s = "PANIC: " + fmt.Sprint(r)
		}
	}()
	return f(d)
}

// ---- parser cross-check ----

// parseModes: whole-buffer Parse, then ParseReader with the reader delivering the text whole (4096-byte buffer
// refills inside the parser), in 1-byte, 3-byte and 7-byte reads and in halves (plib.Chunked).
var parseModes = []string{"parse", "whole", "1", "3", "7", "half"}

func parseOne(c convCase) abs {
	rs := []any{}
	for _, mode := range parseModes {
		r := abs{"m": mode, "gerr": false, "oerr": false, "g": abs{"t": "null", "g": "nil"}, "o": abs{"t": "null", "g": "nil"}}
		func() {
			defer func() {
				if x := recover(); x != nil {
					r["gerr"] = true
				}
			}()
			p := gen.Parser{}
			var n gen.Node
			var err error
			if mode == "parse" {
				n, err = p.Parse([]byte(c.Text))
			} else {
				n, err = p.ParseReader(plib.Chunked([]byte(c.Text), mode))
			}
			if err != nil {
				r["gerr"] = true
				return
			}
			r["g"] = typedNode(n)
		}()
		func() {
			defer func() {
				if x := recover(); x != nil {
					r["oerr"] = true
				}
			}()
			p := oj.Parser{}
			var v any
			var err error
			if mode == "parse" {
				v, err = p.Parse([]byte(c.Text))
			} else {
				v, err = p.ParseReader(plib.Chunked([]byte(c.Text), mode))
			}
			if err != nil {
				r["oerr"] = true
				return
			}
			r["o"] = typedNode(alt.Generify(v, keepOpt))
		}()
		rs = append(rs, r)
	}
	// the text itself is not judged; long padded texts are cut in the log
	txt := c.Text
	if len(txt) > 200 {
		txt = txt[:60] + "..." + txt[len(txt)-120:]
	}
	return abs{"ev": "parse", "text": txt, "rs": rs}
}

func convExec(args []string) {
	in := bufio.NewReaderSize(os.Stdin, 1<<20)
	w := bufio.NewWriterSize(os.Stdout, 1<<20)
	defer w.Flush()
	enc := json.NewEncoder(w)
	enc.SetEscapeHTML(false)
	for {
		line, err := in.ReadBytes('\n')
		if len(bytes.TrimSpace(line)) > 0 {
			var c convCase
			d := json.NewDecoder(bytes.NewReader(line))
			d.UseNumber()
			if e := d.Decode(&c); e != nil {
				fmt.Fprintln(os.Stderr, "bad case line:", e)
				os.Exit(2)
			}
			var out abs
			switch c.Ev {
			case "write":
				out = writeOne(c)
			case "parse":
				out = parseOne(c)
			default:
				out = convOne(c)
			}
			if e := enc.Encode(out); e != nil {
				panic(e)
			}
		}
		if err != nil {
			break
		}
	}
}

// ---------------------------------------------------------------------------------------------
// seeded random cases

type cgen struct{ r *rand.Rand }

var ckeys = []string{"a", "b", "c", "k1", "Z", "0", "x_y"}

func (g *cgen) leaf() abs {
	pick := func(vals ...int64) int64 { return vals[g.r.Intn(len(vals))] }
	bigv := func(i int64, gt string) abs {
		m := absval.Atoms(i).(map[string]any)
		m["g"] = gt
		return m
	}
	switch g.r.Intn(17) {
	case 0:
		return abs{"t": "null", "g": "nil"}
	case 1:
		return abs{"t": "bool", "v": g.r.Intn(2) == 0, "g": "bool"}
	case 2:
		return bigv(pick(0, 1, -1, math.MaxInt32, math.MinInt32, 12345), "int")
	case 3:
		return bigv(pick(0, math.MaxInt8, math.MinInt8, -7), "int8")
	case 4:
		return bigv(pick(0, math.MaxInt16, math.MinInt16), "int16")
	case 5:
		return bigv(pick(0, math.MaxInt32, math.MinInt32), "int32")
	case 6:
		return bigv(pick(0, math.MaxInt64, math.MinInt64, 1<<53+1), "int64")
	case 7:
		return bigv(pick(0, math.MaxUint8, 200), "uint8")
	case 8:
		return bigv(pick(0, math.MaxUint16), "uint16")
	case 9:
		return bigv(pick(0, math.MaxUint32), "uint32")
	case 10:
		return bigv(pick(0, math.MaxInt64, 77), []string{"uint", "uint64"}[g.r.Intn(2)])
	case 11:
		f := []float64{0, 1.5, -2.25, 0.1, 1e300, 5e-324, 123456.789, float64(1<<53) + 2}[g.r.Intn(8)]
		return abs{"t": "flt", "s": strconv.FormatFloat(f, 'g', -1, 64), "g": "float64"}
	case 12:
		f := []float32{0, 0.5, 0.1, 1.0000001, 3.4e38, 16777217, -1.1}[g.r.Intn(7)]
		return abs{"t": "flt", "s": strconv.FormatFloat(float64(f), 'g', -1, 64), "g": "float32"}
	case 13:
		return abs{"t": "str", "v": []string{"", "x", "a b", "null", "1", "q\"uote", "tab\there", "<a&b>"}[g.r.Intn(8)], "g": "string"}
	case 14:
		tl := abs{"t": "time", "sec": g.r.Intn(100000), "nsec": pick(0, 1, 999999999, 500), "g": "time.Time"}
		// every second time leaf lives in a zone other than UTC (the location is part of a time.Time)
		switch g.r.Intn(6) {
		case 0:
			tl["zn"], tl["zo"] = "JST", 9*3600
		case 1:
			tl["zn"], tl["zo"] = "", -5*3600-1800
		case 2:
			tl["zn"], tl["zo"] = "ZERO", 0 // same offset as UTC, another location
		}
		return tl
	case 15:
		return abs{"t": "big", "text": []string{"123456789012345678901234567890", "1e400", "-0.00000000000000000000000000012345678901234567890"}[g.r.Intn(3)], "g": "json.Number"}
	}
	return bigv(int64(g.r.Intn(100)), "int64")
}

func (g *cgen) tree(depth int) abs {
	if depth <= 0 || g.r.Intn(3) == 0 {
		return g.leaf()
	}
	n := g.r.Intn(4)
	if g.r.Intn(2) == 0 {
		e := make([]any, n)
		for i := range e {
			e[i] = g.tree(depth - 1)
		}
		return abs{"t": "arr", "g": "[]any", "v": e}
	}
	m := map[string]any{}
	for i := 0; i < n; i++ {
		m[ckeys[g.r.Intn(len(ckeys))]] = g.tree(depth - 1)
	}
	o := aObj(m)
	o["g"] = "map[string]any"
	return o
}

func contPaths(v abs, p []int, out *[][]int, kinds *[][]string) {
	t := v["t"]
	if t != "arr" && t != "obj" {
		return
	}
	l, _ := v["v"].([]any)
	*out = append(*out, append([]int{}, p...))
	ks := []string{"append"}
	if t == "obj" {
		ks = []string{"setkey"}
	}
	if len(l) > 0 {
		if t == "arr" {
			ks = append(ks, "set0")
		} else {
			ks = append(ks, "delkey")
		}
	}
	*kinds = append(*kinds, ks)
	for i, e := range l {
		contPaths(e.(abs), append(p, i+1), out, kinds)
	}
}

var simpleOps = []string{"alt.Generify", "alt.Dup", "alt.Decompose", "Generify+Simplify", "alt.GenAlter", "alt.Alter", "Generify+Alter",
	"GenAlter+Simplify", "GenAlter+Alter"}
var genOps = []string{"gen.Simplify", "gen.Dup", "gen.Alter"}

func (g *cgen) jsonText(depth int) string {
	nums := []string{"0", "-0", "1", "-1", "1.0", "-0.0", "1.5", "1e2", "1E2", "1e-2", "1.0e0", "100000000000000000000", "9223372036854775807",
		"9223372036854775808", "-9223372036854775808", "0.1", "123456789.123456789", "1e400", "1.7976931348623157e308", "5e-324", "0.000001",
		"12345678901234567890.5", "1.00", "10e0", "2.50"}
	strs := []string{`""`, `"x"`, `"a b"`, `"\n"`, `"A"`, `"q\"q"`, `"\\"`, `"/"`}
	if depth <= 0 || g.r.Intn(3) == 0 {
		switch g.r.Intn(6) {
		case 0:
			return "null"
		case 1:
			return []string{"true", "false"}[g.r.Intn(2)]
		case 2:
			return strs[g.r.Intn(len(strs))]
		default:
			return nums[g.r.Intn(len(nums))]
		}
	}
	n := g.r.Intn(4)
	var b bytes.Buffer
	if g.r.Intn(2) == 0 {
		b.WriteString("[")
		for i := 0; i < n; i++ {
			if i > 0 {
				b.WriteString([]string{",", ", ", " ,\n", "\r,", "\t,", "\r\n,\t"}[g.r.Intn(6)])
			}
			b.WriteString(g.jsonText(depth - 1))
		}
		b.WriteString([]string{"", "", "\r", "\t", "\r\n", " "}[g.r.Intn(6)] + "]")
	} else {
		b.WriteString("{")
		used := map[string]bool{}
		first := true
		for i := 0; i < n; i++ {
			k := ckeys[g.r.Intn(len(ckeys))]
			if used[k] {
				continue
			}
			used[k] = true
			if !first {
				b.WriteString(",")
			}
			first = false
			b.WriteString(strconv.Quote(k) + []string{":", ": ", ":\t", ":\r"}[g.r.Intn(4)] + g.jsonText(depth-1) + []string{"", "", "\r", "\t"}[g.r.Intn(4)])
		}
		b.WriteString("}")
	}
	return b.String()
}

// every character class the writers treat specially, for keys and for string values
var specials = []string{"<", ">", "&", "a<b>&c", "</script>", "\"", "q\"q", "\\", "b\\s", "\x01", "\x1f", "\x7f", "\u2028", "\u2029", "\u00e9", "\u65e5\u672c",
	"\U0001F600", " ", "a b", "", "123", "-1", "1e5", "0x10", "true", "false", "null", "tab\there", "new\nline", "cr\rx", "\xff\xfe", "a\xc3", "\xed\xa0\x80",
	"[x]", "{x}", "a:b", "a,b", "'s'", "$", "@x", "#c", "//c", "x/y", "~", "`"}

func (g *cgen) specialStr() abs {
	return abs{"t": "str", "v": hexed(specials[g.r.Intn(len(specials))]), "g": "string"}
}

// specialTree: objects (and arrays) whose keys and string values come from `specials`
func (g *cgen) specialTree(depth int) abs {
	if depth <= 0 || g.r.Intn(4) == 0 {
		return g.specialStr()
	}
	if g.r.Intn(4) == 0 {
		e := make([]any, 1+g.r.Intn(3))
		for i := range e {
			e[i] = g.specialTree(depth - 1)
		}
		return abs{"t": "arr", "g": "[]any", "v": e}
	}
	m := map[string]any{}
	for i, n := 0, 1+g.r.Intn(4); i < n; i++ {
		m[hexed(specials[g.r.Intn(len(specials))])] = g.specialTree(depth - 1)
	}
	o := aObj(m)
	o["g"] = "map[string]any"
	return o
}

// floatLit: a decimal literal with 15..19 significant digits, the point anywhere (also 0.ddd and 0.00ddd), optional
// sign and optional exponent.
func (g *cgen) floatLit() string {
	n := 15 + g.r.Intn(5)
	d := make([]byte, n)
	for i := range d {
		d[i] = byte('0' + g.r.Intn(10))
	}
	d[0] = byte('1' + g.r.Intn(9))
	if d[n-1] == '0' {
		d[n-1] = byte('1' + g.r.Intn(9))
	}
	var lit string
	switch g.r.Intn(4) {
	case 0:
		lit = "0." + string(d)
	case 1:
		lit = "0." + strings.Repeat("0", 1+g.r.Intn(3)) + string(d)
	default:
		p := 1 + g.r.Intn(n-1)
		lit = string(d[:p]) + "." + string(d[p:])
	}
	if g.r.Intn(3) == 0 {
		lit += []string{"e", "E", "e+", "e-"}[g.r.Intn(4)] + strconv.Itoa(g.r.Intn(31))
	}
	if g.r.Intn(5) == 0 {
		lit = "-" + lit
	}
	return lit
}

// stringText: containers of strings where escaped strings (which go through the parsers' scratch buffers) are
// followed by plain ones, as values and as keys.
func (g *cgen) stringText() string {
	esc := []string{`"a\nb"`, `"\"q\""`, `"x\\y"`, `"\u0041bc"`, `"tab\there"`, `"\/"`, `"long\n` + strings.Repeat("z", 1+g.r.Intn(40)) + `"`}
	plain := []string{`"p"`, `"plain"`, `""`, `"` + strings.Repeat("w", 1+g.r.Intn(30)) + `"`, `"123"`}
	item := func() string {
		if g.r.Intn(2) == 0 {
			return esc[g.r.Intn(len(esc))]
		}
		return plain[g.r.Intn(len(plain))]
	}
	n := 2 + g.r.Intn(5)
	var b bytes.Buffer
	if g.r.Intn(2) == 0 {
		b.WriteString("[")
		for i := 0; i < n; i++ {
			if i > 0 {
				b.WriteString([]string{",", ", ", ",\n "}[g.r.Intn(3)])
			}
			if g.r.Intn(6) == 0 {
				b.WriteString([]string{"1", "null", "[" + item() + "]", `{"k":` + item() + "}"}[g.r.Intn(4)])
			} else {
				b.WriteString(item())
			}
		}
		b.WriteString("]")
	} else {
		b.WriteString("{")
		for i := 0; i < n; i++ {
			if i > 0 {
				b.WriteString(",")
			}
			// distinct keys: a plain or escaped key text made unique by its index
			k := `"k` + strconv.Itoa(i) + `"`
			if g.r.Intn(3) == 0 {
				k = `"k\t` + strconv.Itoa(i) + `"`
			}
			b.WriteString(k + []string{":", ": ", " :"}[g.r.Intn(3)] + item())
		}
		b.WriteString("}")
	}
	return b.String()
}

func tStr(v string) abs  { return abs{"t": "str", "v": v, "g": "string"} }
func tI64(i int64) abs   { m := absval.Atoms(i).(map[string]any); m["g"] = "int64"; return m }
func tArr(e ...any) abs  { return abs{"t": "arr", "g": "[]any", "v": e} }
func tObj1(k string, v abs) abs {
	return abs{"t": "obj", "g": "map[string]any", "k": []any{k}, "v": []any{v}}
}
func tObj(m map[string]any) abs { o := aObj(m); o["g"] = "map[string]any"; return o }

// optMatches: for every option set the values it converts (they must sit at depth >= 2 to show a write into the
// caller's containers: a Converter stores what a function returns into the parent).
var optMatches = map[string][]abs{
	"mongo": {tObj1("$oid", tStr("abc")), tObj1("$numberLong", tStr("12")), tObj1("$date", tStr("2021-01-02T03:04:05.000Z")),
		tObj1("$numberDecimal", tStr("1.5"))},
	"rfc3339":   {tStr("2021-01-02T03:04:05Z"), tStr("2021-01-02")},
	"nano":      {tI64(946684800000000001)},
	"intf":      {tI64(7)},
	"fltf":      {abs{"t": "flt", "s": "1.5", "g": "float64"}},
	"strf":      {tStr("x")},
	"mapf":      {tObj1("m", tI64(1)), tObj1("m", tArr(tStr("m")))},
	"arrf":      {tArr(tStr("m"))},
	"mapf+arrf": {tObj1("m", tArr(tStr("m"))), tArr(tStr("m")), tArr(tObj1("m", tI64(1)))},
	"timef":     {tObj1("@t", tStr("2021-01-02T03:04:05+09:00"))},
	"allf":      {tArr(tI64(7), abs{"t": "flt", "s": "1.5", "g": "float64"}, tStr("x"), tObj1("m", tI64(1)), tArr(tStr("m")))},
	"omitnil":   {abs{"t": "null", "g": "nil"}, tObj1("n", abs{"t": "null", "g": "nil"})},
	"omitempty": {tArr(), tObj(map[string]any{}), tStr(""), tObj1("e", tArr())},
	"timefmt":   {abs{"t": "time", "sec": 5, "nsec": 7, "g": "time.Time", "zn": "JST", "zo": 9 * 3600}},
	"timemap":   {abs{"t": "time", "sec": 5, "nsec": 7, "g": "time.Time"}},
	"timewrap":  {abs{"t": "time", "sec": 5, "nsec": 7, "g": "time.Time", "zn": "JST", "zo": 9 * 3600}},
}

// optBlock: every option set x every value it converts x nesting contexts (depth 0..3, arrays and maps) x the copying
// entry points that take options; emitted on every run. The mutation experiments are chosen by convexec from the real
// input and result (every container x every kind).
func optBlock(enc *json.Encoder) {
	ctxs := []func(v abs) abs{
		func(v abs) abs { return v },
		func(v abs) abs { return tArr(v) },
		func(v abs) abs { return tObj1("a", tArr(v)) },
		func(v abs) abs { return tArr(tObj(map[string]any{"k1": v, "z": tI64(3)})) },
		func(v abs) abs { return tObj1("a", tObj1("b", tArr(tI64(0), v))) },
		func(v abs) abs { return tArr(tArr(v, tObj1("c", v))) },
	}
	names := make([]string, 0, len(optMatches))
	for k := range optMatches {
		names = append(names, k)
	}
	sort.Strings(names)
	for _, name := range names {
		for _, v := range optMatches[name] {
			for _, cx := range ctxs {
				for _, op := range []string{"alt.Decompose", "alt.Dup"} {
					enc.Encode(abs{"ev": "conv", "op": op, "opt": name, "tree": cx(v), "muts": []any{}})
				}
			}
		}
	}
}

func convRand(args []string) {
	fs := flag.NewFlagSet("convrand", flag.ExitOnError)
	n := fs.Int("n", 1000, "number of random conversion cases (the same number of writer and parser cases is added)")
	fs.Parse(args)
	seed, _ := strconv.ParseInt(os.Getenv("VERIF_SEED"), 10, 64)
	g := &cgen{r: rand.New(rand.NewSource(seed*104729 + 5))}
	w := bufio.NewWriterSize(os.Stdout, 1<<20)
	defer w.Flush()
	enc := json.NewEncoder(w)
	enc.SetEscapeHTML(false)
	optBlock(enc)
	optNames := make([]string, 0, len(optSets))
	for k := range optSets {
		optNames = append(optNames, k)
	}
	sort.Strings(optNames)
	for i := 0; i < *n; i++ {
		tr := g.tree(1 + g.r.Intn(3))
		if i%10 == 3 {
			// a random tree under a random option set, with one of the values the set converts somewhere inside
			name := optNames[g.r.Intn(len(optNames))]
			ms := optMatches[name]
			tr = tArr(tr, tObj1("in", tArr(ms[g.r.Intn(len(ms))], g.tree(1))))
			enc.Encode(abs{"ev": "conv", "op": []string{"alt.Decompose", "alt.Dup"}[g.r.Intn(2)], "opt": name, "tree": tr, "muts": []any{}, "maxmuts": 8})
			continue
		}
		var op string
		if g.r.Intn(4) == 0 {
			op = genOps[g.r.Intn(len(genOps))]
			tr = genEquivalent(tr).(abs)
		} else {
			op = simpleOps[g.r.Intn(len(simpleOps))]
		}
		var paths [][]int
		var kinds [][]string
		contPaths(tr, nil, &paths, &kinds)
		muts := []any{}
		if !inPlace[op] {
			for k := 0; k < 4 && len(paths) > 0; k++ {
				j := g.r.Intn(len(paths))
				muts = append(muts, abs{"side": []string{"in", "res"}[g.r.Intn(2)], "path": paths[j], "kind": kinds[j][g.r.Intn(len(kinds[j]))]})
			}
		}
		enc.Encode(abs{"ev": "conv", "op": op, "tree": tr, "muts": muts})
		if i%2 == 0 {
			enc.Encode(abs{"ev": "write", "tree": g.specialTree(1 + g.r.Intn(2))})
		} else {
			enc.Encode(abs{"ev": "write", "tree": g.tree(1 + g.r.Intn(3))})
		}
		txt := g.jsonText(1 + g.r.Intn(3))
		switch g.r.Intn(5) {
		case 4:
			// float literals with 15..19 significant digits, with and without exponent: the two parsers must
			// return the same float64 (a one-ulp disagreement shows in the exact projection)
			var b bytes.Buffer
			b.WriteString("[")
			for k, m := 0, 3+g.r.Intn(5); k < m; k++ {
				if k > 0 {
					b.WriteString([]string{",", "\r,", "\t,\r\n", " ,"}[g.r.Intn(4)])
				}
				b.WriteString(g.floatLit())
			}
			b.WriteString("]")
			txt = b.String()
		case 0:
			txt = g.stringText()
		case 1:
			// pad so that one of the quotes is the last byte of the parser's 4096-byte read
			txt = g.stringText()
			var qs []int
			for k := 0; k < len(txt); k++ {
				if txt[k] == '"' {
					qs = append(qs, k)
				}
			}
			if len(qs) > 0 {
				q := qs[g.r.Intn(len(qs))]
				pad := (4095 - q%4096 + 4096) % 4096
				if g.r.Intn(3) == 0 {
					pad += 4096
				}
				txt = strings.Repeat(" ", pad) + txt
			}
		}
		enc.Encode(abs{"ev": "parse", "text": txt})
	}
}

func convMain(mode string, args []string) bool {
	switch mode {
	case "convexec":
		convExec(args)
	case "convrand":
		convRand(args)
	default:
		return false
	}
	return true
}
