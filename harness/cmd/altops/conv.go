package main

func convMain(mode string, args []string) bool { return false }
