// Command xopts drives every writer entry point of ojg under one setting of the OUTPUT OPTIONS (time options, FloatFormat,
// HTMLUnsafe, NoReflect, Color + colour fields) for the extension check XOPTS (spec/WriterOpts.tla).
//
//	xopts gen  [-tier quick|thorough]   > cells.ndjson    seeded random cells with CONCRETE leaves (no expectations)
//	xopts exec                          < cells.ndjson > trace.ndjson
//
// A CELL (what TLC's WriterOptsGen and `gen` emit) is
//
//	{id, src, fam:"time"|"float"|"html"|"color"|"refl", leaf, ctx, tf, wrap, tmap, ckey, full, unsafe, ff, col, ind, nr}
//
//	leaf   a class name (t_epoch t_pos t_frac t_negsmall t_neg t_negwhole t_ns t_negns t_modern t_zone t_far t_old | f_half f_int
//	       f_big f_small f_neg f_third f_zero f32_tenth f32_big | s_lt s_gt s_amp s_mix s_plain s_quote s_sep s_tag |
//	       c_scalars c_obj c_nested c_empty c_top_str c_top_time c_top_num c_keys c_uint | r_struct r_ptr) or a concrete
//	       leaf "t:<UnixNano>:<zone offset minutes>", "f:<literal>:<32|64>", "s:<hex bytes>"
//	ctx    top | elem [x,1,"x"] | member {"k":x} | nest {"a":[x,{"b":x}]} | key {x:1}
//	tf     TimeFormat: "" nano second time RFC3339Nano RFC3339 date, or a layout string;  wrap TimeWrap;  tmap TimeMap;
//	       ckey CreateKey;  full FullTypePath;  unsafe HTMLUnsafe;  ff FloatFormat;  nr NoReflect
//	col    off | default | bright | html | custom | nokey (colour scheme);  ind Indent (-1 = Tab)
//
// The driver decides nothing.  For each cell it builds the value (simple form and, where one exists, gen form) and the
// options, calls oj.JSON / Marshal / Write / Writer.JSON / MustJSON / Write (WriteLimit 1), sen.String / Bytes / Write /
// Writer.SEN / MustSEN / Write, pretty.JSON / SEN / WriteJSON / WriteSEN / Writer.Encode / Marshal / Write, gen Node
// String() (time family, globals gen.TimeFormat / TimeWrap), alt.Decompose / alt.Alter (time family), and records the
// exact bytes (colour cells: also the bytes of the same call with Color off).  It adds FACTS TLC cannot compute, all from
// the standard library only: the digits of UnixNano, time.Format(layout), fmt.Sprintf(FloatFormat, x), strconv shortest
// forms, the float64 of UnixNano/1e9.  The judgement is TraceWriterOpts'.
package main

import (
	"bufio"
	"bytes"
	"encoding/hex"
	"encoding/json"
	"flag"
	"fmt"
	"math"
	"math/rand"
	"os"
	"sort"
	"strconv"
	"strings"
	"time"

	"github.com/ohler55/ojg"
	"github.com/ohler55/ojg/alt"
	"github.com/ohler55/ojg/gen"
	"github.com/ohler55/ojg/oj"
	"github.com/ohler55/ojg/pretty"
	"github.com/ohler55/ojg/sen"
)

type M = map[string]any

type Cell struct {
	ID     int    `json:"id"`
	Src    string `json:"src"`
	Fam    string `json:"fam"`
	Leaf   string `json:"leaf"`
	Ctx    string `json:"ctx"`
	Tf     string `json:"tf"`
	Wrap   string `json:"wrap"`
	Tmap   bool   `json:"tmap"`
	Ckey   string `json:"ckey"`
	Full   bool   `json:"full"`
	Unsafe bool   `json:"unsafe"`
	Ff     string `json:"ff"`
	Col    string `json:"col"`
	Ind    int    `json:"ind"`
	Nr     bool   `json:"nr"`
}

// Pt is the struct of the NoReflect family.
type Pt struct {
	A int
	B int
}

// MV is the model value a cell denotes; from it the Go value (simple / gen form) and the tagged tree are derived.
type MV struct {
	K    string // null bool int uint flt str time arr obj struct
	B    bool
	I    int64
	U    uint64
	F    float64
	F32  bool
	S    string
	T    time.Time
	A    []*MV
	Keys []string
	Ptr  bool
}

func main() {
	if len(os.Args) < 2 {
		fmt.Fprintln(os.Stderr, "usage: xopts gen|exec")
		os.Exit(2)
	}
	switch os.Args[1] {
	case "gen":
		genCells(os.Args[2:])
	case "exec":
		execCells()
	default:
		fmt.Fprintln(os.Stderr, "usage: xopts gen|exec")
		os.Exit(2)
	}
}

func bs(s string) []int {
	out := make([]int, len(s))
	for i := 0; i < len(s); i++ {
		out[i] = int(s[i])
	}
	return out
}

// ---------------------------------------------------------------------------------------------- leaves

var modern = time.Date(2020, 4, 12, 16, 34, 4, 123456789, time.UTC)

func timeLeaf(name string) (time.Time, bool) {
	at := func(n int64) time.Time { return time.Unix(0, n).UTC() }
	switch name {
	case "t_epoch":
		return at(0), true
	case "t_pos":
		return at(1500000000), true
	case "t_frac":
		return at(1050000007), true
	case "t_negsmall":
		return at(-500000000), true
	case "t_neg":
		return at(-1500000000), true
	case "t_negwhole":
		return at(-2000000000), true
	case "t_ns":
		return at(1), true
	case "t_negns":
		return at(-1), true
	case "t_modern":
		return modern, true
	case "t_zone":
		return modern.In(time.FixedZone("", 5*3600+1800)), true
	case "t_far":
		return time.Date(2200, 1, 1, 0, 0, 0, 0, time.UTC), true
	case "t_old":
		return time.Date(1900, 1, 1, 0, 0, 0, 5000, time.UTC), true
	}
	if strings.HasPrefix(name, "t:") {
		p := strings.Split(name, ":")
		if len(p) == 3 {
			n, e1 := strconv.ParseInt(p[1], 10, 64)
			z, e2 := strconv.Atoi(p[2])
			if e1 == nil && e2 == nil {
				t := time.Unix(0, n).UTC()
				if z != 0 {
					t = t.In(time.FixedZone("", z*60))
				}
				return t, true
			}
		}
	}
	return time.Time{}, false
}

func leafOf(name string) *MV {
	if t, ok := timeLeaf(name); ok {
		return &MV{K: "time", T: t}
	}
	switch name {
	case "f_half":
		return &MV{K: "flt", F: 0.5}
	case "f_int":
		return &MV{K: "flt", F: 3}
	case "f_big":
		return &MV{K: "flt", F: 1e21}
	case "f_small":
		return &MV{K: "flt", F: 1e-7}
	case "f_neg":
		return &MV{K: "flt", F: -2.25}
	case "f_third":
		return &MV{K: "flt", F: 1.0 / 3.0}
	case "f_zero":
		return &MV{K: "flt", F: 0}
	case "f32_tenth":
		return &MV{K: "flt", F: float64(float32(0.1)), F32: true}
	case "f32_big":
		return &MV{K: "flt", F: 16777216, F32: true}
	case "s_lt":
		return &MV{K: "str", S: "<"}
	case "s_gt":
		return &MV{K: "str", S: ">"}
	case "s_amp":
		return &MV{K: "str", S: "&"}
	case "s_mix":
		return &MV{K: "str", S: "a<b>&c"}
	case "s_plain":
		return &MV{K: "str", S: "abc"}
	case "s_quote":
		return &MV{K: "str", S: "q\"\\"}
	case "s_sep":
		return &MV{K: "str", S: "\u2028x"}
	case "s_tag":
		return &MV{K: "str", S: "<span>"}
	case "r_struct":
		return &MV{K: "struct"}
	case "r_ptr":
		return &MV{K: "struct", Ptr: true}
	}
	I := func(i int64) *MV { return &MV{K: "int", I: i} }
	S := func(s string) *MV { return &MV{K: "str", S: s} }
	A := func(a ...*MV) *MV { return &MV{K: "arr", A: a} }
	O := func(kv ...any) *MV {
		o := &MV{K: "obj"}
		for i := 0; i+1 < len(kv); i += 2 {
			o.Keys = append(o.Keys, kv[i].(string))
			o.A = append(o.A, kv[i+1].(*MV))
		}
		return o
	}
	T := &MV{K: "time", T: modern}
	switch name {
	case "c_scalars":
		return A(&MV{K: "null"}, &MV{K: "bool", B: true}, I(1), &MV{K: "flt", F: 2.5}, S("s"), T)
	case "c_obj":
		return O("a", I(1), "b", A(&MV{K: "bool", B: true}, &MV{K: "null"}), "t", T)
	case "c_nested":
		return O("k", O("x", A(I(1), O("y", S("z")))))
	case "c_empty":
		return A(A(), O())
	case "c_top_str":
		return S("hello")
	case "c_top_time":
		return T
	case "c_top_num":
		return I(-12)
	case "c_keys":
		return O("<k>", S("v"), "k2", &MV{K: "bool", B: false})
	case "c_uint":
		return A(&MV{K: "uint", U: math.MaxUint64}, &MV{K: "uint", U: 1 << 63}, I(-5))
	}
	if strings.HasPrefix(name, "f:") {
		p := strings.Split(name, ":")
		if len(p) == 3 {
			if p[2] == "32" {
				f, err := strconv.ParseFloat(p[1], 32)
				if err == nil {
					return &MV{K: "flt", F: f, F32: true}
				}
			} else if f, err := strconv.ParseFloat(p[1], 64); err == nil {
				return &MV{K: "flt", F: f}
			}
		}
	}
	if strings.HasPrefix(name, "s:") {
		if b, err := hex.DecodeString(name[2:]); err == nil {
			return &MV{K: "str", S: string(b)}
		}
	}
	return nil
}

func inCtx(ctx string, x *MV) *MV {
	dup := func() *MV { c := *x; return &c }
	switch ctx {
	case "elem":
		return &MV{K: "arr", A: []*MV{x, {K: "int", I: 1}, {K: "str", S: "x"}}}
	case "member":
		return &MV{K: "obj", Keys: []string{"k"}, A: []*MV{x}}
	case "nest":
		return &MV{K: "obj", Keys: []string{"a"}, A: []*MV{{K: "arr", A: []*MV{x, {K: "obj", Keys: []string{"b"}, A: []*MV{dup()}}}}}}
	case "key":
		return &MV{K: "obj", Keys: []string{x.S}, A: []*MV{{K: "int", I: 1}}}
	}
	return x
}

func simple(m *MV) any {
	switch m.K {
	case "null":
		return nil
	case "bool":
		return m.B
	case "int":
		return m.I
	case "uint":
		return m.U
	case "flt":
		if m.F32 {
			return float32(m.F)
		}
		return m.F
	case "str":
		return m.S
	case "time":
		return m.T
	case "arr":
		a := make([]any, len(m.A))
		for i, c := range m.A {
			a[i] = simple(c)
		}
		return a
	case "obj":
		o := map[string]any{}
		for i, k := range m.Keys {
			o[k] = simple(m.A[i])
		}
		return o
	case "struct":
		if m.Ptr {
			return &Pt{A: 1, B: 2}
		}
		return Pt{A: 1, B: 2}
	}
	return nil
}

func genForm(m *MV) (gen.Node, bool) {
	switch m.K {
	case "null":
		return nil, true
	case "bool":
		return gen.Bool(m.B), true
	case "int":
		return gen.Int(m.I), true
	case "flt":
		if m.F32 {
			return nil, false
		}
		return gen.Float(m.F), true
	case "str":
		return gen.String(m.S), true
	case "time":
		return gen.Time(m.T), true
	case "arr":
		a := make(gen.Array, len(m.A))
		for i, c := range m.A {
			n, ok := genForm(c)
			if !ok {
				return nil, false
			}
			a[i] = n
		}
		return a, true
	case "obj":
		o := gen.Object{}
		for i, k := range m.Keys {
			n, ok := genForm(m.A[i])
			if !ok {
				return nil, false
			}
			o[k] = n
		}
		return o, true
	}
	return nil, false
}

// ---------------------------------------------------------------------------------------------- facts and tagged trees

func nanoRec(n int64) M {
	s := strconv.FormatInt(n, 10)
	neg := false
	if s[0] == '-' {
		neg, s = true, s[1:]
	}
	d := []int{}
	if s != "0" {
		for _, c := range s {
			d = append(d, int(c-'0'))
		}
	}
	return M{"neg": neg, "d": d}
}

func dedup(xs ...string) [][]int {
	seen := map[string]bool{}
	out := [][]int{}
	for _, x := range xs {
		if !seen[x] {
			seen[x] = true
			out = append(out, bs(x))
		}
	}
	return out
}

func tfString(tf string) string {
	switch tf {
	case "RFC3339Nano":
		return time.RFC3339Nano
	case "RFC3339":
		return time.RFC3339
	case "date":
		return "2006-01-02"
	}
	return tf
}

func tfClass(tf string) string {
	switch tf {
	case "", "nano", "second", "time":
		return tf
	}
	return "layout"
}

func tagged(m *MV, c *Cell) M {
	switch m.K {
	case "null":
		return M{"t": "null"}
	case "bool":
		return M{"t": "bool", "v": m.B}
	case "int":
		return M{"t": "int", "txt": bs(strconv.FormatInt(m.I, 10))}
	case "uint":
		return M{"t": "int", "txt": bs(strconv.FormatUint(m.U, 10))}
	case "flt":
		var alts [][]int
		if c.Ff == "" {
			if m.F32 {
				alts = dedup(strconv.FormatFloat(m.F, 'g', -1, 32), strconv.FormatFloat(m.F, 'g', -1, 64), fmt.Sprintf("%g", float32(m.F)), fmt.Sprintf("%g", m.F))
			} else {
				alts = dedup(strconv.FormatFloat(m.F, 'g', -1, 64), fmt.Sprintf("%g", m.F))
			}
		} else if m.F32 {
			alts = dedup(fmt.Sprintf(c.Ff, m.F), fmt.Sprintf(c.Ff, float32(m.F)))
		} else {
			alts = dedup(fmt.Sprintf(c.Ff, m.F))
		}
		sh := dedup(strconv.FormatFloat(m.F, 'g', -1, 64))
		if m.F32 {
			sh = dedup(strconv.FormatFloat(m.F, 'g', -1, 64), strconv.FormatFloat(m.F, 'g', -1, 32))
		}
		return M{"t": "flt", "alts": alts, "sh": sh}
	case "str":
		return M{"t": "str", "v": bs(m.S)}
	case "time":
		n := m.T.UnixNano()
		lay := ""
		if tfClass(c.Tf) == "layout" {
			lay = m.T.Format(tfString(c.Tf))
		}
		exact := fmt.Sprintf("%d.%09d", n/1e9, abs64(n%1e9))
		if n < 0 && n/1e9 == 0 {
			exact = "-" + exact
		}
		near, _ := strconv.ParseFloat(exact, 64)
		secf := dedup(strconv.FormatFloat(float64(n)/float64(time.Second), 'g', -1, 64), strconv.FormatFloat(near, 'g', -1, 64))
		return M{"t": "time", "nano": nanoRec(n), "lay": bs(lay), "secf": secf}
	case "arr":
		a := make([]any, len(m.A))
		for i, x := range m.A {
			a[i] = tagged(x, c)
		}
		return M{"t": "arr", "v": a}
	case "obj":
		idx := make([]int, len(m.Keys))
		for i := range idx {
			idx[i] = i
		}
		sort.Slice(idx, func(a, b int) bool { return m.Keys[idx[a]] < m.Keys[idx[b]] })
		ks, vs := []any{}, []any{}
		for _, i := range idx {
			ks = append(ks, bs(m.Keys[i]))
			vs = append(vs, tagged(m.A[i], c))
		}
		return M{"t": "obj", "k": ks, "v": vs}
	case "struct":
		// the REFLECTED encoding (what the documentation promises unless NoReflect applies): create key first
		ks, vs := []any{}, []any{}
		if c.Ckey != "" {
			ks = append(ks, bs(c.Ckey))
			vs = append(vs, M{"t": "str", "v": bs("Pt")})
		}
		ks = append(ks, bs("a"), bs("b"))
		vs = append(vs, M{"t": "int", "txt": bs("1")}, M{"t": "int", "txt": bs("2")})
		return M{"t": "obj", "k": ks, "v": vs}
	}
	return M{"t": "null"}
}

func abs64(n int64) int64 {
	if n < 0 {
		return -n
	}
	return n
}

// project a decomposed value
func project(v any) M {
	switch tv := v.(type) {
	case nil:
		return M{"t": "null"}
	case bool:
		return M{"t": "bool", "v": tv}
	case int64:
		return M{"t": "int", "txt": bs(strconv.FormatInt(tv, 10))}
	case int:
		return M{"t": "int", "txt": bs(strconv.Itoa(tv))}
	case float64:
		return M{"t": "flt", "sh": bs(strconv.FormatFloat(tv, 'g', -1, 64))}
	case string:
		return M{"t": "str", "v": bs(tv)}
	case time.Time:
		return M{"t": "time", "nano": nanoRec(tv.UnixNano())}
	case []any:
		a := make([]any, len(tv))
		for i, x := range tv {
			a[i] = project(x)
		}
		return M{"t": "arr", "v": a}
	case map[string]any:
		keys := make([]string, 0, len(tv))
		for k := range tv {
			keys = append(keys, k)
		}
		sort.Strings(keys)
		ks, vs := []any{}, []any{}
		for _, k := range keys {
			ks = append(ks, bs(k))
			vs = append(vs, project(tv[k]))
		}
		return M{"t": "obj", "k": ks, "v": vs}
	}
	return M{"t": "other", "g": fmt.Sprintf("%T", v)}
}

// ---------------------------------------------------------------------------------------------- options

type scheme struct{ syn, key, null, boo, num, str, tim, no string }

func schemeOf(col string) scheme {
	d := ojg.DefaultOptions
	s := scheme{d.SyntaxColor, d.KeyColor, d.NullColor, d.BoolColor, d.NumberColor, d.StringColor, d.TimeColor, d.NoColor}
	switch col {
	case "bright":
		b := ojg.BrightOptions
		s = scheme{b.SyntaxColor, b.KeyColor, b.NullColor, b.BoolColor, b.NumberColor, b.StringColor, b.TimeColor, b.NoColor}
	case "html":
		h := ojg.HTMLOptions
		s = scheme{h.SyntaxColor, h.KeyColor, h.NullColor, h.BoolColor, h.NumberColor, h.StringColor, h.TimeColor, h.NoColor}
	case "custom":
		s = scheme{"\x1b[1m", "\x1b[4;34m", "\x1b[41m", "\x1b[7m", "\x1b[38;5;208m", "\x1b[3;32m", "\x1b[95m", "\x1b[0m"}
	case "nokey":
		s.key = ""
	}
	return s
}

func mkOptions(c *Cell) ojg.Options {
	o := ojg.DefaultOptions
	o.Sort = true
	o.TimeFormat = tfString(c.Tf)
	o.TimeWrap = c.Wrap
	o.TimeMap = c.Tmap
	o.CreateKey = c.Ckey
	o.FullTypePath = c.Full
	o.HTMLUnsafe = c.Unsafe
	o.FloatFormat = c.Ff
	o.NoReflect = c.Nr
	if c.Ind < 0 {
		o.Tab = true
	} else {
		o.Indent = c.Ind
	}
	if c.Col != "off" && c.Col != "" {
		s := schemeOf(c.Col)
		o.Color = true
		o.SyntaxColor, o.KeyColor, o.NullColor, o.BoolColor = s.syn, s.key, s.null, s.boo
		o.NumberColor, o.StringColor, o.TimeColor, o.NoColor = s.num, s.str, s.tim, s.no
	}
	return o
}

func optRec(c *Cell) M {
	r := M{"tf": tfClass(c.Tf), "wrap": bs(c.Wrap), "tmap": c.Tmap, "ckey": bs(c.Ckey), "full": c.Full, "unsafe": c.Unsafe,
		"nr": c.Nr, "color": false, "seqs": [][]int{}, "no": 0, "markup": false,
		"sq": M{"syn": 0, "key": 0, "null": 0, "bool": 0, "num": 0, "str": 0, "time": 0}}
	if c.Col == "off" || c.Col == "" {
		return r
	}
	s := schemeOf(c.Col)
	seqs := []string{}
	idx := func(x string) int {
		if x == "" {
			return 0
		}
		for i, y := range seqs {
			if y == x {
				return i + 1
			}
		}
		seqs = append(seqs, x)
		return len(seqs)
	}
	sq := M{"syn": idx(s.syn), "key": idx(s.key), "null": idx(s.null), "bool": idx(s.boo), "num": idx(s.num), "str": idx(s.str), "time": idx(s.tim)}
	r["no"] = idx(s.no)
	sb := make([][]int, len(seqs))
	for i, x := range seqs {
		sb[i] = bs(x)
	}
	r["color"], r["seqs"], r["sq"], r["markup"] = true, sb, sq, c.Col == "html"
	return r
}

// ---------------------------------------------------------------------------------------------- calls

type call struct {
	grp, api string
	sen      bool
	f        func(o *ojg.Options) []byte
}

func safe(f func() []byte) (out []byte, perr string) {
	defer func() {
		if r := recover(); r != nil {
			out, perr = nil, fmt.Sprintf("panic: %v", r)
		}
	}()
	return f(), ""
}

type failure struct{ msg string }

func must(err error) {
	if err != nil {
		panic(failure{err.Error()})
	}
}

func callsFor(v any, gv gen.Node, hasGen bool) []call {
	cp := func(b []byte) []byte { return append([]byte{}, b...) }
	lim1 := func(o *ojg.Options) ojg.Options { o2 := *o; o2.WriteLimit = 1; return o2 }
	cs := []call{
		{"oj", "oj.JSON", false, func(o *ojg.Options) []byte { return []byte(oj.JSON(v, o)) }},
		{"oj", "oj.Marshal", false, func(o *ojg.Options) []byte { b, err := oj.Marshal(v, o); must(err); return b }},
		{"oj", "oj.Write", false, func(o *ojg.Options) []byte { var b bytes.Buffer; must(oj.Write(&b, v, o)); return b.Bytes() }},
		{"oj", "oj.Writer.JSON", false, func(o *ojg.Options) []byte { w := oj.Writer{Options: *o}; return []byte(w.JSON(v)) }},
		{"oj", "oj.Writer.MustJSON", false, func(o *ojg.Options) []byte { w := oj.Writer{Options: *o}; return cp(w.MustJSON(v)) }},
		{"oj", "oj.Writer.Write/limit1", false, func(o *ojg.Options) []byte {
			w := oj.Writer{Options: lim1(o)}
			var b bytes.Buffer
			must(w.Write(&b, v))
			return b.Bytes()
		}},
		{"sen", "sen.String", true, func(o *ojg.Options) []byte { return []byte(sen.String(v, o)) }},
		{"sen", "sen.Bytes", true, func(o *ojg.Options) []byte { return cp(sen.Bytes(v, o)) }},
		{"sen", "sen.Write", true, func(o *ojg.Options) []byte { var b bytes.Buffer; must(sen.Write(&b, v, o)); return b.Bytes() }},
		{"sen", "sen.Writer.SEN", true, func(o *ojg.Options) []byte { w := sen.Writer{Options: *o}; return []byte(w.SEN(v)) }},
		{"sen", "sen.Writer.MustSEN", true, func(o *ojg.Options) []byte { w := sen.Writer{Options: *o}; return cp(w.MustSEN(v)) }},
		{"sen", "sen.Writer.Write/limit1", true, func(o *ojg.Options) []byte {
			w := sen.Writer{Options: lim1(o)}
			var b bytes.Buffer
			must(w.Write(&b, v))
			return b.Bytes()
		}},
		{"pretty.JSON", "pretty.JSON", false, func(o *ojg.Options) []byte { return []byte(pretty.JSON(v, o)) }},
		{"pretty.JSON", "pretty.WriteJSON", false, func(o *ojg.Options) []byte { var b bytes.Buffer; must(pretty.WriteJSON(&b, v, o)); return b.Bytes() }},
		{"pretty.JSON", "pretty.Writer.Encode", false, func(o *ojg.Options) []byte {
			w := pretty.Writer{Options: *o, Width: 80, MaxDepth: 3}
			return cp(w.Encode(v))
		}},
		{"pretty.JSON", "pretty.Writer.Marshal", false, func(o *ojg.Options) []byte {
			w := pretty.Writer{Options: *o, Width: 80, MaxDepth: 3}
			b, err := w.Marshal(v)
			must(err)
			return b
		}},
		{"pretty.JSON", "pretty.Writer.Write/limit1", false, func(o *ojg.Options) []byte {
			w := pretty.Writer{Options: lim1(o), Width: 80, MaxDepth: 3}
			var b bytes.Buffer
			must(w.Write(&b, v))
			return b.Bytes()
		}},
		{"pretty.SEN", "pretty.SEN", true, func(o *ojg.Options) []byte { return []byte(pretty.SEN(v, o)) }},
		{"pretty.SEN", "pretty.WriteSEN", true, func(o *ojg.Options) []byte { var b bytes.Buffer; must(pretty.WriteSEN(&b, v, o)); return b.Bytes() }},
		{"pretty.SEN", "pretty.Writer.Encode/SEN", true, func(o *ojg.Options) []byte {
			w := pretty.Writer{Options: *o, Width: 80, MaxDepth: 3, SEN: true}
			return cp(w.Encode(v))
		}},
		{"pretty.SEN", "pretty.Writer.Write/SEN/limit1", true, func(o *ojg.Options) []byte {
			w := pretty.Writer{Options: lim1(o), Width: 80, MaxDepth: 3, SEN: true}
			var b bytes.Buffer
			must(w.Write(&b, v))
			return b.Bytes()
		}},
	}
	if hasGen {
		cs = append(cs,
			call{"oj", "oj.JSON(gen)", false, func(o *ojg.Options) []byte { return []byte(oj.JSON(gv, o)) }},
			call{"sen", "sen.String(gen)", true, func(o *ojg.Options) []byte { return []byte(sen.String(gv, o)) }},
			call{"pretty.JSON", "pretty.JSON(gen)", false, func(o *ojg.Options) []byte { return []byte(pretty.JSON(gv, o)) }},
			call{"pretty.SEN", "pretty.SEN(gen)", true, func(o *ojg.Options) []byte { return []byte(pretty.SEN(gv, o)) }},
		)
	}
	return cs
}

func hasHTML(s string) bool { return strings.ContainsAny(s, "\"\\") }

func runCell(c *Cell) M {
	leaf := leafOf(c.Leaf)
	if leaf == nil {
		return M{"id": c.ID, "cell": c, "fam": c.Fam, "skip": "unknown leaf"}
	}
	mv := inCtx(c.Ctx, leaf)
	o := mkOptions(c)
	tree := tagged(mv, c)
	type outT struct {
		G   string   `json:"g"`
		As  []string `json:"as"`
		Sen bool     `json:"sen"`
		B   []int    `json:"b"`
		Pb  []int    `json:"pb"`
		Err string   `json:"err"`
	}
	outs := []*outT{}
	index := map[string]*outT{}
	ncalls := 0
	gv, hasGen := genForm(mv)
	for _, cl := range callsFor(simple(mv), gv, hasGen) {
		oc := o
		b, perr := safe(func() []byte { return cl.f(&oc) })
		ncalls++
		var pb []byte
		if o.Color {
			op := o
			op.Color = false
			pb, _ = safe(func() []byte { return cl.f(&op) })
			ncalls++
		}
		key := cl.grp + "\x00" + string(b) + "\x00" + string(pb) + "\x00" + perr
		if e, ok := index[key]; ok {
			e.As = append(e.As, cl.api)
			continue
		}
		e := &outT{G: cl.grp, As: []string{cl.api}, Sen: cl.sen, B: bs(string(b)), Pb: bs(string(pb)), Err: perr}
		index[key] = e
		outs = append(outs, e)
	}
	// gen Node String(): only TimeFormat / TimeWrap exist there (package globals); JSON flavour, no HTML option
	if c.Fam == "time" && hasGen && !c.Tmap && !hasHTML(c.Wrap) {
		stf, stw := gen.TimeFormat, gen.TimeWrap
		gen.TimeFormat, gen.TimeWrap = tfString(c.Tf), c.Wrap
		b, perr := safe(func() []byte {
			if gv == nil {
				return []byte("null")
			}
			return []byte(gv.String())
		})
		gen.TimeFormat, gen.TimeWrap = stf, stw
		ncalls++
		outs = append(outs, &outT{G: "gen.String", As: []string{"gen.Node.String"}, Sen: false, B: bs(string(b)), Pb: []int{}, Err: perr})
	}
	decs := []M{}
	if c.Fam == "time" || c.Fam == "float" {
		for _, api := range []string{"alt.Decompose", "alt.Alter"} {
			var res any
			fresh := simple(mv)
			oc := o
			_, perr := safe(func() []byte {
				if api == "alt.Alter" {
					res = alt.Alter(fresh, &oc)
				} else {
					res = alt.Decompose(fresh, &oc)
				}
				return nil
			})
			ncalls++
			d := M{"api": api, "err": perr, "a": M{"t": "null"}}
			if perr == "" {
				d["a"] = project(res)
			}
			decs = append(decs, d)
		}
	}
	return M{"id": c.ID, "cell": c, "fam": c.Fam, "o": optRec(c), "tree": tree, "outs": outs, "decs": decs, "calls": ncalls}
}

func execCells() {
	in := bufio.NewScanner(os.Stdin)
	in.Buffer(make([]byte, 1<<20), 1<<26)
	w := bufio.NewWriterSize(os.Stdout, 1<<20)
	defer w.Flush()
	enc := json.NewEncoder(w)
	enc.SetEscapeHTML(false)
	for in.Scan() {
		line := bytes.TrimSpace(in.Bytes())
		if len(line) == 0 {
			continue
		}
		var c Cell
		if err := json.Unmarshal(line, &c); err != nil {
			fmt.Fprintln(os.Stderr, "bad cell:", err)
			os.Exit(2)
		}
		if err := enc.Encode(runCell(&c)); err != nil {
			fmt.Fprintln(os.Stderr, "encode:", err)
			os.Exit(2)
		}
	}
}

// ---------------------------------------------------------------------------------------------- seeded random cells

func genCells(args []string) {
	fs := flag.NewFlagSet("gen", flag.ExitOnError)
	tier := fs.String("tier", "quick", "quick|thorough")
	_ = fs.Parse(args)
	seed, _ := strconv.ParseInt(os.Getenv("VERIF_SEED"), 10, 64)
	if seed == 0 {
		seed = 1
	}
	r := rand.New(rand.NewSource(seed))
	n := 500
	if *tier != "quick" {
		n = 6000
	}
	pick := func(xs ...string) string { return xs[r.Intn(len(xs))] }
	enc := json.NewEncoder(os.Stdout)
	enc.SetEscapeHTML(false)
	layouts := []string{"", "nano", "second", "time", "RFC3339Nano", "RFC3339", "date", time.RFC1123Z, time.RFC822Z, "2006-01-02T15:04:05.000Z07:00",
		time.StampMicro, "Jan _2 2006 at 3:04PM (MST)"}
	for i := 0; i < n; i++ {
		c := Cell{Src: "rand", Ctx: pick("top", "elem", "member", "nest"), Unsafe: true, Col: "off"}
		switch r.Intn(10) {
		case 0, 1, 2, 3: // time
			c.Fam = "time"
			var nanos int64
			switch r.Intn(5) {
			case 0:
				nanos = r.Int63n(2_000_000_000) - 1_000_000_000 // around the epoch, both signs, |t| < 1 s
			case 1:
				nanos = -r.Int63n(4_000_000_000_000_000_000)
			case 2:
				nanos = (r.Int63n(4_000_000_000) - 2_000_000_000) * 1_000_000_000 // whole seconds
			default:
				nanos = r.Int63n(4_000_000_000_000_000_000)
			}
			c.Leaf = fmt.Sprintf("t:%d:%s", nanos, pick("0", "0", "330", "-480", "1"))
			c.Tf = layouts[r.Intn(len(layouts))]
			c.Wrap = pick("", "", "@", "T<w", "$Date", "a b", "q\"")
			c.Tmap = r.Intn(3) == 0
			if c.Tmap {
				c.Ckey = pick("", "^", "type", "k<")
				c.Full = r.Intn(2) == 0
			}
			c.Unsafe = r.Intn(3) > 0
			if r.Intn(4) == 0 {
				c.Col = pick("default", "bright", "html", "custom")
				if c.Col == "html" {
					c.Unsafe = false
				}
			}
		case 4, 5, 6: // float
			c.Fam = "float"
			mant := r.NormFloat64()
			f := mant * math.Pow(10, float64(r.Intn(50)-25))
			switch r.Intn(6) {
			case 0:
				f = float64(r.Intn(2000) - 1000)
			case 1:
				f = math.Trunc(mant*1000) / 8
			}
			bits := pick("64", "64", "32")
			if bits == "32" {
				f = float64(float32(f))
			}
			c.Leaf = fmt.Sprintf("f:%s:%s", strconv.FormatFloat(f, 'g', -1, 64), bits)
			c.Ff = pick("", "", "%g", "%.2f", "%e", "%08.3f", "%v", "%.0f", "%G", "%+.3e", "%.10g", "%f")
			c.Col = pick("off", "off", "default", "custom")
		default: // html
			c.Fam = "html"
			alpha := []string{"<", ">", "&", "a", "b", "\"", "\\", " ", "é", "/", "'", "=", ";"}
			s := ""
			for k := r.Intn(6) + 1; k > 0; k-- {
				s += alpha[r.Intn(len(alpha))]
			}
			c.Leaf = "s:" + hex.EncodeToString([]byte(s))
			c.Ctx = pick("top", "elem", "member", "nest", "key")
			c.Unsafe = r.Intn(2) == 0
			c.Col = pick("off", "off", "default", "html", "custom")
			if c.Col == "html" {
				c.Unsafe = false
			}
			c.Ind = []int{0, 0, 2, -1}[r.Intn(4)]
		}
		if err := enc.Encode(&c); err != nil {
			os.Exit(2)
		}
	}
}
