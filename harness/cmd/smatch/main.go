// Command smatch drives C17: streaming Match on generated (document, targets) cases.
//
//	smatch gen -n N [-thorough] > cases.ndjson ;  smatch exec < cases.ndjson > trace.ndjson
package main

import (
	"bufio"
	"bytes"
	"encoding/json"
	"flag"
	"fmt"
	"math/rand"
	"os"
	"sort"
	"strconv"
	"strings"

	"github.com/ohler55/ojg/jp"
	"github.com/ohler55/ojg/oj"
	"github.com/ohler55/ojg/sen"

	jl "verif/harness/jplib"
	"verif/harness/plib"
)

type mcase struct {
	Doc     jl.Node     `json:"doc"`
	Targets [][]jl.Frag `json:"targets"`
	Class   string      `json:"class"` // fragment-kind signature of the targets: part of the locus
	Chunks  []string    `json:"chunks"`
}

type call struct {
	Loc    []any   `json:"loc"`
	Val    jl.Node `json:"val"`
	Normal bool    `json:"normal"`
}

type ogroup struct {
	As    []string `json:"as"`
	Err   bool     `json:"err"`
	Msg   string   `json:"msg,omitempty"`
	Calls []call   `json:"calls"`
}

type tline struct {
	Doc     jl.Node     `json:"doc"`
	Targets [][]jl.Frag `json:"targets"`
	Class   string      `json:"class"`
	Text    string      `json:"text"`
	O       []ogroup    `json:"o"`
}

func main() {
	switch os.Args[1] {
	case "gen":
		gen(os.Args[2:])
	case "exec":
		exec()
	}
}

func seed() int64 {
	s, _ := strconv.ParseInt(os.Getenv("VERIF_SEED"), 10, 64)
	if s == 0 {
		s = 1
	}
	return s
}

// text writes the document with object members sorted by key (source order = the order jplib keeps).
func text(n jl.Node, sb *strings.Builder, r *rand.Rand) {
	ws := func() {
		if r != nil && r.Intn(5) == 0 {
			sb.WriteByte(" \n"[r.Intn(2)])
		}
	}
	switch {
	case jl.IsArr(n):
		sb.WriteByte('[')
		for i, e := range jl.Elems(n) {
			if i > 0 {
				sb.WriteByte(',')
			}
			ws()
			text(e, sb, r)
		}
		sb.WriteByte(']')
	case jl.IsObj(n):
		sb.WriteByte('{')
		ks, vs := jl.Keys(n), jl.Vals(n)
		for i := range ks {
			if i > 0 {
				sb.WriteByte(',')
			}
			ws()
			kb, _ := json.Marshal(ks[i])
			sb.Write(kb)
			sb.WriteByte(':')
			text(vs[i], sb, r)
		}
		sb.WriteByte('}')
	default:
		if v, ok := n["i"]; ok {
			fmt.Fprintf(sb, "%v", jl.ToInt(v))
		} else if v, ok := n["s"]; ok {
			b, _ := json.Marshal(v)
			sb.Write(b)
		} else if v, ok := n["b"]; ok {
			fmt.Fprintf(sb, "%v", v)
		} else if v, ok := n["x"].(string); ok && strings.HasPrefix(v, "flt:") {
			sb.WriteString(v[4:]) // a float leaf: its text is the shortest form, which is what the projection reports
		} else if _, ok := n["fq"]; ok {
			sb.WriteString(strconv.FormatFloat(fqFloat(n["fq"]), 'g', -1, 64)) // a small dyadic float leaf n / 2^k (the shared projection's exact form)
		} else {
			sb.WriteString("null")
		}
	}
}

func fqFloat(q any) float64 {
	var num, k int64
	switch tq := q.(type) {
	case []int64:
		num, k = tq[0], tq[1]
	case []any:
		num, k = jl.ToInt(tq[0]), jl.ToInt(tq[1])
	}
	return float64(num) / float64(int64(1)<<uint(k))
}

type g struct {
	r   *rand.Rand
	ctr int64
}

var keys = []string{"a", "b", "c", "d"}

// distinct leaves so that values identify locations
func (x *g) tree(depth int) jl.Node {
	k := x.r.Intn(8)
	if depth <= 0 && k >= 4 {
		k = x.r.Intn(4)
	}
	switch k {
	case 0, 1:
		x.ctr++
		return jl.Int(x.ctr)
	case 2:
		x.ctr++
		return jl.Str("s" + strconv.FormatInt(x.ctr, 10))
	case 3:
		return []jl.Node{jl.Null(), jl.Bool(true), jl.Bool(false)}[x.r.Intn(3)]
	case 4, 5:
		n := x.r.Intn(5)
		es := make([]jl.Node, n)
		for i := range es {
			es[i] = x.tree(depth - 1)
		}
		return jl.Arr(es...)
	default:
		n := x.r.Intn(4)
		perm := x.r.Perm(len(keys))[:n]
		sort.Ints(perm)
		var kv []any
		for _, p := range perm {
			kv = append(kv, keys[p], x.tree(depth-1))
		}
		return jl.Obj(kv...)
	}
}

func (x *g) frag(last bool) (jl.Frag, string) {
	switch x.r.Intn(12) {
	case 0, 1, 2:
		return jl.FChild(keys[x.r.Intn(len(keys))]), "child"
	case 3, 4:
		return jl.FNth(x.r.Intn(4)), "nth"
	case 5:
		return jl.FNth(-1 - x.r.Intn(3)), "nth-neg"
	case 6, 7:
		return jl.FWild(), "wild"
	case 8:
		if x.r.Intn(2) == 0 {
			return jl.FUnion(keys[x.r.Intn(4)], keys[x.r.Intn(4)]), "union"
		}
		return jl.FUnion(x.r.Intn(3), 2+x.r.Intn(2), keys[x.r.Intn(4)]), "union"
	case 9:
		s := x.r.Intn(3)
		if x.r.Intn(4) == 0 {
			return jl.FSlice(-1-x.r.Intn(2), jl.Absent, jl.Absent), "slice-neg"
		}
		return jl.FSlice(s, s+1+x.r.Intn(3), []int{1, 1, 2}[x.r.Intn(3)]), "slice"
	case 10:
		return jl.FDesc(), "desc"
	default:
		if last {
			ops := []jl.Frag{jl.FFilter("exk", keys[x.r.Intn(4)], jl.Null()), jl.FFilter("gts", "", jl.Int(x.ctr/2)), jl.FFilter("gtk", keys[x.r.Intn(4)], jl.Int(x.ctr/2))}
			return ops[x.r.Intn(len(ops))], "filter"
		}
		return jl.FWild(), "wild"
	}
}

func (x *g) path() ([]jl.Frag, []string) {
	p := []jl.Frag{jl.FRoot()}
	var cls []string
	n := 1 + x.r.Intn(4)
	for i := 0; i < n; i++ {
		f, c := x.frag(i == n-1)
		if c == "desc" && i == n-1 {
			f, c = jl.FChild(keys[x.r.Intn(4)]), "child" // a trailing bare descent is left open by C05
			p = append(p, jl.FDesc())
			cls = append(cls, "desc")
		}
		p = append(p, f)
		cls = append(cls, c)
	}
	return p, cls
}

// matrix: a fixed menu of target paths crossed pairwise (both orders) over documents built for them: the interplay of
// several targets (which target decides at a container's end, a filter target in front of a plain one, two descents in
// one target, two unions in one target) is rare in random generation and is enumerated here instead.
func matrix(out *bufio.Writer, full bool) {
	I, S, A, O := jl.Int, jl.Str, jl.Arr, jl.Obj
	docs := []jl.Node{
		O("a", I(5), "b", A(O("x", I(1)), O("x", I(0)), O("x", I(2))), "c", O("a", O("b", I(7), "p", O("q", O("b", I(8)))), "b", I(9))),
		A(A(O("x", I(0))), A(O("x", I(1)), O("x", I(3))), O("a", A(I(1), I(2), I(3), I(4))), I(6)),
		O("x", O("a", O("b", I(1), "y", O("b", I(2)), "p", O("q", O("b", I(3))))), "a", O("b", I(4))),
		A(O("a", S("s1"), "b", S("s2")), A(I(10), I(11), I(12), I(13)), A(A(I(20), I(21)), A(I(22), I(23)))),
	}
	gt := func(k string, c int64) jl.Frag { return jl.FFilter("gtk", k, I(c)) }
	menu := [][]jl.Frag{
		{jl.FRoot(), jl.FChild("a")}, {jl.FRoot(), jl.FChild("b")}, {jl.FRoot(), jl.FChild("c"), jl.FChild("a")}, {jl.FRoot(), jl.FWild()},
		{jl.FRoot(), jl.FWild(), jl.FWild()}, {jl.FRoot(), jl.FNth(0)}, {jl.FRoot(), jl.FNth(1)}, {jl.FRoot(), jl.FNth(1), jl.FNth(0)}, {jl.FRoot(), jl.FNth(3)},
		{jl.FRoot(), jl.FDesc(), jl.FChild("b")}, {jl.FRoot(), jl.FDesc(), jl.FChild("a"), jl.FDesc(), jl.FChild("b")}, {jl.FRoot(), jl.FDesc(), jl.FChild("x")},
		{jl.FRoot(), jl.FChild("x"), jl.FDesc(), jl.FChild("b")}, {jl.FRoot(), jl.FDesc(), jl.FNth(0)}, {jl.FRoot(), jl.FDesc(), jl.FNth(1), jl.FDesc(), jl.FNth(0)},
		{jl.FRoot(), jl.FUnion("a", "b")}, {jl.FRoot(), jl.FUnion(0, 2), jl.FUnion(1, 3)}, {jl.FRoot(), jl.FUnion(1, 2), jl.FUnion(0, 1), jl.FUnion(0, 1)}, {jl.FRoot(), jl.FDesc(), jl.FUnion("a", "b"), jl.FUnion(0, 1)},
		{jl.FRoot(), jl.FWild(), gt("x", 0)}, {jl.FRoot(), jl.FChild("b"), gt("x", 0)}, {jl.FRoot(), jl.FWild(), jl.FFilter("exk", "x", jl.Null())}, {jl.FRoot(), gt("x", 0)},
		{jl.FRoot(), jl.FWild(), jl.FFilter("gts", "", I(1))}, {jl.FRoot(), jl.FDesc(), gt("x", 0)}, {jl.FRoot(), jl.FChild("c"), jl.FWild()}, {jl.FRoot(), jl.FChild("c"), jl.FChild("a"), jl.FChild("b")},
		{jl.FRoot(), jl.FNth(2), jl.FChild("a"), jl.FSlice(1, 3, 1)}, {jl.FRoot(), jl.FNth(-1)}, {jl.FRoot(), jl.FNth(1), jl.FWild()}, {jl.FRoot(), jl.FNth(2), jl.FWild(), jl.FNth(1)},
	}
	cls := func(p []jl.Frag) []string {
		var c []string
		for _, f := range p[1:] {
			k, _ := f["f"].(string)
			switch k {
			case "nth":
				if jl.ToInt(f["i"]) < 0 {
					k = "nth-neg"
				}
			case "slice":
				if jl.ToInt(f["s"]) < 0 || jl.ToInt(f["e"]) < 0 {
					k = "slice-neg"
				}
			}
			c = append(c, k)
		}
		return c
	}
	emit := func(doc jl.Node, ts ...[]jl.Frag) {
		set := map[string]bool{}
		for _, t := range ts {
			for _, c := range cls(t) {
				set[c] = true
			}
		}
		var cl []string
		for c := range set {
			cl = append(cl, c)
		}
		sort.Strings(cl)
		class := strings.Join(cl, "+")
		if len(ts) > 1 {
			class += "/multi-target"
		}
		out.Write(plib.MarshalLine(mcase{Doc: doc, Targets: ts, Class: class, Chunks: []string{"whole", "1", "half", "dataerr:1"}}))
	}
	// scalar and empty roots (a bare top-level value is complete only at end of input: the Load variants must flush it),
	// and the root itself as a target
	small := []jl.Node{I(42), I(-7), I(0), S("s"), S(""), jl.Bool(true), jl.Bool(false), jl.Null(), A(), O(), A(I(1)), O("a", I(1))}
	smenu := [][]jl.Frag{{jl.FRoot()}, {jl.FRoot(), jl.FChild("a")}, {jl.FRoot(), jl.FNth(0)}, {jl.FRoot(), jl.FDesc(), jl.FChild("a")}, {jl.FRoot(), jl.FWild()}, {jl.FRoot(), jl.FNth(-1)}}
	for _, d := range small {
		for i := range smenu {
			emit(d, smenu[i])
			if i > 0 {
				emit(d, smenu[0], smenu[i])
				emit(d, smenu[i], smenu[0])
			}
		}
	}
	// decimal and exponent leaves (opaque to the specification: compared as atoms), so that a number split across reads is
	// delivered whole; only under targets without filters, which would have to order them
	// the leaf is whatever the shared projection (jplib.Project) makes of the float64, so that document and callback values meet in one form
	F := func(t string) jl.Node {
		f, err := strconv.ParseFloat(t, 64)
		if err != nil {
			panic(err)
		}
		return jl.Project(f)
	}
	fdocs := []jl.Node{
		O("a", F("12.75"), "b", A(F("0.5"), F("-0.125"), I(3), F("1.5e+20")), "c", O("a", F("-2.5e-07"), "b", F("1234.5678"))),
		A(F("12.75"), A(F("0.25"), F("3.5")), O("a", F("1e+21")), F("-0.001953125")),
		F("12.75"), F("-2.5e-07"),
	}
	fmenu := [][]jl.Frag{{jl.FRoot()}, {jl.FRoot(), jl.FChild("a")}, {jl.FRoot(), jl.FChild("b")}, {jl.FRoot(), jl.FWild()}, {jl.FRoot(), jl.FWild(), jl.FWild()},
		{jl.FRoot(), jl.FNth(0)}, {jl.FRoot(), jl.FNth(1)}, {jl.FRoot(), jl.FNth(-1)}, {jl.FRoot(), jl.FDesc(), jl.FChild("a")}, {jl.FRoot(), jl.FDesc(), jl.FNth(0)},
		{jl.FRoot(), jl.FUnion("a", "b")}, {jl.FRoot(), jl.FChild("b"), jl.FSlice(0, 2, 1)}, {jl.FRoot(), jl.FChild("c"), jl.FWild()}}
	for _, d := range fdocs {
		for i := range fmenu {
			emit(d, fmenu[i])
			if i > 0 {
				emit(d, fmenu[i], fmenu[(i+3)%len(fmenu)])
			}
		}
	}
	// strings and member names with a lexical life of their own: spelled like a literal ("true", "null"), with escapes (so that
	// an escape meets every read boundary in the 1-byte and half chunkings), empty, and the empty / escaped member name
	sdocs := []jl.Node{
		O("a", S("true"), "b", A(S("null"), S("false"), S("a\tb"), S("q\"x")), "c", O("a", S("\u00e9\\z"), "b", S(""))),
		A(S("true"), A(S("a\nb"), S("\u2028<&>")), O("a", S("null")), S("tab\there\r\n")),
		O("", I(1), "a", O("", A(I(1), I(2)), "y", I(2)), "k\n", S("v")),
		A(O("", S("e")), O("a", O("", I(7), "b", O("", O("", I(8)))))),
		S("true"), S("a\tb\\"), S(""),
	}
	for _, d := range sdocs {
		for i := range fmenu {
			emit(d, fmenu[i])
			if i > 0 {
				emit(d, fmenu[i], fmenu[(i+5)%len(fmenu)])
			}
		}
	}
	// a filter followed by more fragments, over elements of which only some contain the rest of the path (first, last, none)
	idocs := []jl.Node{
		O("a", A(O("x", I(1), "y", I(7)), O("x", I(1)), O("x", I(0), "y", I(9)), O("x", I(2), "y", O("z", I(3))))),
		O("a", A(O("x", I(1)), O("x", I(1), "y", I(7)), O("x", I(1)))),
		A(O("x", I(1), "y", A(I(4), I(5))), O("x", I(1)), O("x", I(3), "y", A(I(6)))),
		O("a", A(O("x", I(1)), O("x", I(2)))),
	}
	imenu := [][]jl.Frag{
		{jl.FRoot(), jl.FChild("a"), gt("x", 0), jl.FChild("y")}, {jl.FRoot(), jl.FChild("a"), gt("x", 1), jl.FChild("y"), jl.FChild("z")},
		{jl.FRoot(), gt("x", 0), jl.FChild("y")}, {jl.FRoot(), gt("x", 0), jl.FChild("y"), jl.FNth(0)}, {jl.FRoot(), jl.FWild(), gt("x", 0), jl.FChild("y")},
		{jl.FRoot(), jl.FChild("a"), jl.FFilter("exk", "y", jl.Null()), jl.FChild("x")}, {jl.FRoot(), jl.FDesc(), gt("x", 0), jl.FChild("y")},
	}
	for _, d := range idocs {
		for i := range imenu {
			emit(d, imenu[i])
			emit(d, imenu[i], menu[0])
			emit(d, menu[3], imenu[i])
		}
	}
	for _, d := range docs {
		emit(d, smenu[0])
		emit(d, smenu[0], menu[0])
		emit(d, menu[9], smenu[0])
	}
	for di, d := range docs {
		for i := range menu {
			emit(d, menu[i])
			for j := range menu {
				if i != j && (full || (i+j+di)%2 == 0) {
					emit(d, menu[i], menu[j])
				}
			}
		}
	}
}

func gen(args []string) {
	fs := flag.NewFlagSet("gen", flag.ExitOnError)
	n := fs.Int("n", 2000, "cases")
	full := fs.Bool("full", false, "whole target-pair matrix")
	fs.Parse(args)
	x := &g{r: rand.New(rand.NewSource(seed()))}
	out := bufio.NewWriterSize(os.Stdout, 1<<20)
	defer out.Flush()
	matrix(out, *full)
	for i := 0; i < *n; i++ {
		x.ctr = 0
		doc := x.tree(1 + x.r.Intn(4))
		nt := 1
		if x.r.Intn(3) == 0 {
			nt = 2 + x.r.Intn(2)
		}
		var ts [][]jl.Frag
		clsSet := map[string]bool{}
		for t := 0; t < nt; t++ {
			p, cls := x.path()
			ts = append(ts, p)
			for _, c := range cls {
				clsSet[c] = true
			}
		}
		var cl []string
		for c := range clsSet {
			cl = append(cl, c)
		}
		sort.Strings(cl)
		class := strings.Join(cl, "+")
		if nt > 1 {
			class += "/multi-target"
		}
		chunks := []string{"whole", "1", "3", "half", "dataerr:3"}
		out.Write(plib.MarshalLine(mcase{Doc: doc, Targets: ts, Class: class, Chunks: chunks}))
	}
}

func run(api, chunk, txt string, targets []jp.Expr) (o ogroup) {
	o.As = []string{api}
	if chunk != "" {
		o.As = []string{api + "@" + chunk}
	}
	o.Calls = []call{}
	defer func() {
		if r := recover(); r != nil {
			o.Err = true
			o.Msg = fmt.Sprintf("panic: %v", r)
		}
	}()
	cb := func(path jp.Expr, data any) {
		steps, normal := jl.Steps(append(jp.Expr{}, path...))
		if steps == nil {
			steps = []any{}
		}
		o.Calls = append(o.Calls, call{Loc: steps, Val: jl.Project(data), Normal: normal})
	}
	var err error
	switch api {
	case "oj.Match":
		err = oj.Match([]byte(txt), cb, targets...)
	case "oj.MatchString":
		err = oj.MatchString(txt, cb, targets...)
	case "oj.MatchLoad":
		err = oj.MatchLoad(plib.Chunked([]byte(txt), chunk), cb, targets...)
	case "sen.Match":
		err = sen.Match([]byte(txt), cb, targets...)
	case "sen.MatchLoad":
		err = sen.MatchLoad(plib.Chunked([]byte(txt), chunk), cb, targets...)
	}
	if err != nil {
		o.Err = true
		o.Msg = err.Error()
	}
	return
}

func exec() {
	sc := bufio.NewScanner(os.Stdin)
	sc.Buffer(make([]byte, 1<<20), 1<<28)
	out := bufio.NewWriterSize(os.Stdout, 1<<20)
	defer out.Flush()
	r := rand.New(rand.NewSource(seed()))
	for sc.Scan() {
		if len(bytes.TrimSpace(sc.Bytes())) == 0 {
			continue
		}
		var c mcase
		dec := json.NewDecoder(bytes.NewReader(sc.Bytes()))
		if err := dec.Decode(&c); err != nil {
			panic(err)
		}
		doc := jl.Norm(map[string]any(c.Doc))
		var sb strings.Builder
		text(doc, &sb, r)
		txt := sb.String()
		if r.Intn(6) == 0 {
			txt = "\xef\xbb\xbf" + txt // a BOM in front: the front-ends skip it, whatever the read sizes
		}
		var targets []jp.Expr
		for _, t := range c.Targets {
			targets = append(targets, jl.Expr(t))
		}
		var all []ogroup
		for _, a := range []string{"oj.Match", "oj.MatchString", "sen.Match"} {
			all = append(all, run(a, "", txt, targets))
		}
		for _, ch := range c.Chunks {
			all = append(all, run("oj.MatchLoad", ch, txt, targets))
			all = append(all, run("sen.MatchLoad", ch, txt, targets))
		}
		idx := map[string]int{}
		gs := []ogroup{}
		for _, o := range all {
			jb, _ := json.Marshal(o.Calls)
			key := fmt.Sprintf("%v/%s", o.Err, jb)
			if i, ok := idx[key]; ok {
				gs[i].As = append(gs[i].As, o.As...)
			} else {
				idx[key] = len(gs)
				gs = append(gs, o)
			}
		}
		out.Write(plib.MarshalLine(tline{Doc: doc, Targets: c.Targets, Class: c.Class, Text: txt, O: gs}))
	}
}
