// Command writers drives the real ojg writers for C04 (JSON writers) and C10 (SEN round trip).
//
//	writers gen    -shapes shapes.ndjson [-reps N] [-tier quick|thorough]   > cases.ndjson   (C04: TLC shapes x leaf universe x options)
//	writers exec                                                           < cases.ndjson > trace.ndjson
//	writers sengen [-tier quick|thorough]                                   > cases.ndjson   (C10)
//	writers senexec                                                        < cases.ndjson > trace.ndjson
//
// The driver only builds values, calls the real API, records every Write call of the io.Writer and the
// returned text, and supplies the float64 facts TLC cannot compute (exact decimal and the two midpoints).
// It judges nothing: every verdict is taken by the TLC trace specifications TraceJsonWriter / TraceSen.
package main

import (
	"bufio"
	"bytes"
	"encoding/json"
	"flag"
	"fmt"
	"math"
	"math/big"
	"math/rand"
	"os"
	"runtime"
	"sort"
	"strconv"
	"sync"

	"github.com/ohler55/ojg"
	"github.com/ohler55/ojg/gen"
	"github.com/ohler55/ojg/oj"
	"github.com/ohler55/ojg/pretty"

	"verif/harness/absval"
)

func main() {
	if len(os.Args) < 2 {
		fmt.Fprintln(os.Stderr, "usage: writers gen|exec|sengen|senexec ...")
		os.Exit(2)
	}
	switch os.Args[1] {
	case "gen":
		genCases(os.Args[2:])
	case "exec":
		execCases(os.Args[2:])
	case "sengen":
		senGen(os.Args[2:])
	case "senexec":
		senExec(os.Args[2:])
	default:
		fmt.Fprintln(os.Stderr, "unknown mode", os.Args[1])
		os.Exit(2)
	}
}

// ---------------------------------------------------------------- helpers
type M = map[string]any

func ints(b []byte) []int {
	r := make([]int, len(b))
	for i, x := range b {
		r[i] = int(x)
	}
	return r
}

func line(v any) []byte {
	b, err := json.Marshal(v)
	if err != nil {
		panic(err)
	}
	return append(b, '\n')
}

func readLines(f *os.File, fn func([]byte)) {
	sc := bufio.NewScanner(f)
	sc.Buffer(make([]byte, 1<<20), 1<<28)
	for sc.Scan() {
		if len(sc.Bytes()) > 0 {
			fn(append([]byte{}, sc.Bytes()...))
		}
	}
}

func seed() int64 {
	s, _ := strconv.ParseInt(os.Getenv("VERIF_SEED"), 10, 64)
	if s == 0 {
		s = 1
	}
	return s
}

func bytesOf(v any) []byte {
	a, _ := v.([]any)
	b := make([]byte, len(a))
	for i, x := range a {
		f, _ := x.(float64)
		b[i] = byte(int(f))
	}
	return b
}

// abstract leaf constructors (case-file form)
func aNull() M           { return M{"t": "null"} }
func aBool(b bool) M     { return M{"t": "bool", "v": b} }
func aInt(i int64) M     { return M{"t": "int", "s": strconv.FormatInt(i, 10)} }
func aFlt(f float64) M   { return M{"t": "flt", "s": strconv.FormatFloat(f, 'g', -1, 64)} }
func aStr(s string) M    { return M{"t": "str", "v": ints([]byte(s))} }
func aArr(v ...any) M    { return M{"t": "arr", "v": append([]any{}, v...)} }
func aNilArr() M         { return M{"t": "narr"} }
func aObj(kv ...any) M { // key, value, key, value ...; sorted by key bytes
	type pair struct {
		k string
		v any
	}
	var ps []pair
	for i := 0; i+1 < len(kv); i += 2 {
		ps = append(ps, pair{kv[i].(string), kv[i+1]})
	}
	sort.Slice(ps, func(i, j int) bool { return ps[i].k < ps[j].k })
	ks, vs := []any{}, []any{}
	for i, p := range ps {
		if i > 0 && ps[i-1].k == p.k {
			continue
		}
		ks = append(ks, ints([]byte(p.k)))
		vs = append(vs, p.v)
	}
	return M{"t": "obj", "k": ks, "v": vs}
}

// build turns an abstract tree (as read back from JSON) into the Go value handed to ojg, and at the same
// time into the full abstract form written to the trace (numbers with their decimal facts).
func build(a M, asGen bool) (val any, full M) {
	switch a["t"] {
	case "null":
		if asGen {
			return nil, a
		}
		return nil, a
	case "bool":
		b, _ := a["v"].(bool)
		if asGen {
			return gen.Bool(b), a
		}
		return b, a
	case "int":
		i, err := strconv.ParseInt(a["s"].(string), 10, 64)
		if err != nil {
			panic(err)
		}
		full = M{"t": "int", "dec": absval.Dec(strconv.FormatInt(i, 10))}
		if asGen {
			return gen.Int(i), full
		}
		return i, full
	case "flt":
		f, err := strconv.ParseFloat(a["s"].(string), 64)
		if err != nil {
			panic(err)
		}
		lo, hi := absval.FloatMidpoints(f)
		full = M{"t": "flt", "lo": lo, "hi": hi, "ex": absval.RatDec(new(big.Rat).SetFloat64(f)), "s": a["s"]}
		if asGen {
			return gen.Float(f), full
		}
		return f, full
	case "f32":
		f64, err := strconv.ParseFloat(a["s"].(string), 32)
		if err != nil {
			panic(err)
		}
		f := float32(f64)
		lo, hi := f32Midpoints(f)
		full = M{"t": "flt", "lo": lo, "hi": hi, "ex": absval.RatDec(new(big.Rat).SetFloat64(float64(f))), "s": a["s"]}
		if asGen {
			return gen.Float(float64(f)), full
		}
		return f, full
	case "str":
		s := string(bytesOf(a["v"]))
		full = M{"t": "str", "v": ints([]byte(s))}
		if asGen {
			return gen.String(s), full
		}
		return s, full
	case "narr":
		if asGen {
			return gen.Array{}, a
		}
		return []any(nil), a
	case "arr":
		src, _ := a["v"].([]any)
		fv := make([]any, len(src))
		if asGen {
			ga := make(gen.Array, len(src))
			for i, e := range src {
				v, f := build(e.(M), true)
				if v != nil {
					ga[i] = v.(gen.Node)
				}
				fv[i] = f
			}
			return ga, M{"t": "arr", "v": fv}
		}
		sa := make([]any, len(src))
		for i, e := range src {
			sa[i], fv[i] = build(e.(M), false)
		}
		return sa, M{"t": "arr", "v": fv}
	case "obj":
		ks, _ := a["k"].([]any)
		vs, _ := a["v"].([]any)
		fv := make([]any, len(vs))
		fk := make([]any, len(ks))
		if asGen {
			g := gen.Object{}
			for i := range ks {
				k := string(bytesOf(ks[i]))
				fk[i] = ints([]byte(k))
				v, f := build(vs[i].(M), true)
				if v != nil {
					g[k] = v.(gen.Node)
				} else {
					g[k] = nil
				}
				fv[i] = f
			}
			return g, M{"t": "obj", "k": fk, "v": fv}
		}
		m := map[string]any{}
		for i := range ks {
			k := string(bytesOf(ks[i]))
			fk[i] = ints([]byte(k))
			m[k], fv[i] = build(vs[i].(M), false)
		}
		return m, M{"t": "obj", "k": fk, "v": fv}
	}
	panic(fmt.Sprintf("bad abstract node %v", a))
}

// ---------------------------------------------------------------- C04 exec
type opts struct {
	Indent     int  `json:"indent"`
	Tab        bool `json:"tab"`
	Sort       bool `json:"sort"`
	OmitNil    bool `json:"omitnil"`
	OmitEmpty  bool `json:"omitempty"`
	HTMLUnsafe bool `json:"htmlunsafe"`
}

type pcfg struct {
	W  int  `json:"w"`
	D  int  `json:"d"`
	Al bool `json:"al"`
}

type wcase struct {
	Tree M      `json:"tree"`
	O    opts   `json:"o"`
	P    []pcfg `json:"p"`
	L    []int  `json:"l,omitempty"` // explicit WriteLimits (replay); empty = derive from the text length
	Src  string `json:"src,omitempty"`
}

type out struct {
	G  string  `json:"g"`  // calls with the same g were given the same (tree, options): the statement wants identical text
	A  string  `json:"-"`  // api
	L  int     `json:"-"`  // WriteLimit (0 = not a streaming call)
	As []call  `json:"as"` // the calls that produced exactly this chunk sequence (merged to keep the trace small)
	Ch [][]int `json:"ch"` // the chunks: one per Write call on the io.Writer, or the returned text as one chunk
	E  string  `json:"e"`  // "" | "error: ..." | "panic: ..."
}

type call struct {
	A string `json:"a"`
	L int    `json:"l"`
}

// merge calls of one group with identical observations (no judgement: byte-identical records are stored once)
func merge(outs []out) []out {
	idx := map[string]int{}
	var res []out
	for _, o := range outs {
		b, _ := json.Marshal(o.Ch)
		key := o.G + "|" + o.E + "|" + string(b)
		if i, ok := idx[key]; ok {
			res[i].As = append(res[i].As, call{o.A, o.L})
			continue
		}
		idx[key] = len(res)
		o.As = []call{{o.A, o.L}}
		res = append(res, o)
	}
	return res
}

type recorder struct{ chunks [][]int }

func (r *recorder) Write(p []byte) (int, error) {
	r.chunks = append(r.chunks, ints(p))
	return len(p), nil
}

func (o opts) ojg(limit int) *ojg.Options {
	return &ojg.Options{Indent: o.Indent, Tab: o.Tab, Sort: o.Sort, OmitNil: o.OmitNil, OmitEmpty: o.OmitEmpty,
		HTMLUnsafe: o.HTMLUnsafe, WriteLimit: limit}
}

func guard(o *out, fn func()) {
	defer func() {
		if r := recover(); r != nil {
			o.E = fmt.Sprintf("panic: %v", r)
			if len(o.E) > 120 {
				o.E = o.E[:120]
			}
		}
	}()
	fn()
}

func inMem(g, api string, fn func() (string, error)) out {
	o := out{G: g, A: api, Ch: [][]int{}}
	guard(&o, func() {
		s, err := fn()
		if err != nil {
			o.E = "error: " + err.Error()
			return
		}
		o.Ch = [][]int{ints([]byte(s))}
	})
	return o
}

func streamed(g, api string, limit int, fn func(w *recorder) error) out {
	o := out{G: g, A: api, L: limit, Ch: [][]int{}}
	r := &recorder{}
	guard(&o, func() {
		if err := fn(r); err != nil {
			o.E = "error: " + err.Error()
		}
	})
	if r.chunks != nil {
		o.Ch = r.chunks
	}
	return o
}

func limitsFor(n int, explicit []int, rnd *rand.Rand) []int {
	if len(explicit) > 0 {
		return explicit
	}
	if n <= 64 {
		ls := make([]int, 0, n+1)
		for l := 1; l <= n+1; l++ {
			ls = append(ls, l)
		}
		return ls
	}
	set := map[int]bool{1: true, n / 2: true, 1024: true}
	if n > 20000 {
		// very long texts (deep family): thousands of one-value chunks make the trace expensive without adding anything
		set = map[int]bool{n / 2: true, 1024: true}
	}
	if n <= 3000 {
		for _, l := range []int{2, 7, n - 1, n, n + 1} {
			set[l] = true
		}
		for k := 0; k < 4; k++ {
			set[1+rnd.Intn(n)] = true
		}
	}
	ls := []int{}
	for l := range set {
		if l > 0 {
			ls = append(ls, l)
		}
	}
	sort.Ints(ls)
	return ls
}

func hasF32(t M) bool {
	switch t["t"] {
	case "f32":
		return true
	case "arr", "obj":
		for _, e := range t["v"].([]any) {
			if hasF32(e.(M)) {
				return true
			}
		}
	}
	return false
}

func runCase(c wcase, idx int) []byte {
	simple, full := build(c.Tree, false)
	gv, _ := build(c.Tree, true)
	// gen has no float32: a tree with a float32 leaf is written in its simple form only (the gen form would be a different
	// input, float64(f), with a different shortest literal)
	f32 := hasF32(c.Tree)
	if f32 {
		gv = simple
	}
	rnd := rand.New(rand.NewSource(seed()*1000003 + int64(idx)))
	var outs []out
	// ---- oj family: one text for all of these
	ref := inMem("oj", "oj.JSON", func() (string, error) { return oj.JSON(simple, c.O.ojg(0)), nil })
	outs = append(outs, ref)
	outs = append(outs, inMem("oj", "oj.Marshal", func() (string, error) {
		b, err := oj.Marshal(simple, c.O.ojg(0))
		return string(b), err
	}))
	outs = append(outs, inMem("oj", "oj.Writer.JSON", func() (string, error) {
		w := oj.Writer{Options: *c.O.ojg(0)}
		return w.JSON(simple), nil
	}))
	outs = append(outs, inMem("oj", "oj.Writer.JSON/gen", func() (string, error) {
		w := oj.Writer{Options: *c.O.ojg(0)}
		return w.JSON(gv), nil
	}))
	n := 0
	if len(ref.Ch) == 1 {
		n = len(ref.Ch[0])
	}
	for _, l := range limitsFor(n, c.L, rnd) {
		l := l
		outs = append(outs, streamed("oj", "oj.Write", l, func(w *recorder) error { return oj.Write(w, simple, c.O.ojg(l)) }))
	}
	// the gen form through the streaming writer at a few limits
	genLimits := []int{1, n/2 + 1}
	if n > 20000 {
		genLimits = []int{n/2 + 1}
	}
	for _, l := range genLimits {
		l := l
		outs = append(outs, streamed("oj", "oj.Write/gen", l, func(w *recorder) error { return oj.Write(w, gv, c.O.ojg(l)) }))
	}
	// ---- pretty family: one text per (width, depth, align)
	for _, p := range c.P {
		p := p
		g := fmt.Sprintf("pretty/w%d/d%d/a%v", p.W, p.D, p.Al)
		wd := float64(p.W) + float64(p.D)/10.0
		pref := inMem(g, "pretty.JSON", func() (string, error) { return pretty.JSON(simple, wd, p.Al, c.O.ojg(0)), nil })
		outs = append(outs, pref)
		outs = append(outs, inMem(g, "pretty.JSON/gen", func() (string, error) { return pretty.JSON(gv, wd, p.Al, c.O.ojg(0)), nil }))
		pn := 0
		if len(pref.Ch) == 1 {
			pn = len(pref.Ch[0])
		}
		pl := c.L
		if len(pl) == 0 {
			pl = []int{1, 3, pn/2 + 1, pn, pn + 1}
			if pn > 20000 {
				pl = []int{pn/2 + 1, 1024}
			}
			if pn <= 24 {
				pl = limitsFor(pn, nil, rnd)
			}
		}
		seen := map[int]bool{}
		for _, l := range pl {
			l := l
			if l <= 0 || seen[l] {
				continue
			}
			seen[l] = true
			outs = append(outs, streamed(g, "pretty.WriteJSON", l, func(w *recorder) error {
				return pretty.WriteJSON(w, simple, wd, p.Al, c.O.ojg(l))
			}))
		}
	}
	return line(M{"tree": compress(full), "o": c.O, "outs": merge(outs), "src": c.Src})
}

// compress keeps the trace readable for TLC, whose JSON reader refuses documents nested deeper than 255: a deep spine
// (at every level the child that is itself deepest) is written as ONE node
//   {"t":"chain","lv":[{"k":0|1,"pre":[...],"post":[...],"key":[..],"pk":[[..]],"qk":[[..]]}, ...],"inner":tree}
// outermost level first; k = 0 array / 1 object; pre / post = the (shallow) siblings before / after the spine member, for
// objects with their keys pk / key / qk in the ascending order of the tree. The trace specifications expand it again.
func nodeDepth(t M) int {
	d := 0
	switch t["t"] {
	case "arr", "obj":
		for _, e := range t["v"].([]any) {
			if x := nodeDepth(e.(M)) + 1; x > d {
				d = x
			}
		}
		if d == 0 {
			d = 1
		}
	}
	return d
}

func compress(t M) M {
	if nodeDepth(t) < 40 {
		return t
	}
	var lv []any
	cur := t
	for {
		kind := cur["t"]
		if kind != "arr" && kind != "obj" {
			break
		}
		vs, _ := cur["v"].([]any)
		best, bd := -1, 0
		for i, e := range vs {
			if d := nodeDepth(e.(M)); d > bd {
				best, bd = i, d
			}
		}
		if best < 0 || bd < 3 {
			break
		}
		pre, post := []any{}, []any{}
		for i, e := range vs {
			if i < best {
				pre = append(pre, compress(e.(M)))
			} else if i > best {
				post = append(post, compress(e.(M)))
			}
		}
		l := M{"k": 0, "pre": pre, "post": post, "key": []int{}, "pk": []any{}, "qk": []any{}}
		if kind == "obj" {
			ks := cur["k"].([]any)
			l["k"] = 1
			l["key"] = ks[best]
			l["pk"] = append([]any{}, ks[:best]...)
			l["qk"] = append([]any{}, ks[best+1:]...)
		}
		lv = append(lv, l)
		cur = vs[best].(M)
	}
	if len(lv) == 0 {
		return t
	}
	return M{"t": "chain", "lv": lv, "inner": cur}
}

func parallel(n int, fn func(i int) []byte) [][]byte {
	res := make([][]byte, n)
	var wg sync.WaitGroup
	var mu sync.Mutex
	cur := -1
	nw := runtime.NumCPU()
	if nw > 8 {
		nw = 8
	}
	for w := 0; w < nw; w++ {
		wg.Add(1)
		go func() {
			defer wg.Done()
			for {
				mu.Lock()
				cur++
				i := cur
				mu.Unlock()
				if i >= n {
					return
				}
				res[i] = fn(i)
			}
		}()
	}
	wg.Wait()
	return res
}

func execCases(args []string) {
	var cases []wcase
	readLines(os.Stdin, func(l []byte) {
		var c wcase
		if err := json.Unmarshal(l, &c); err != nil {
			panic(err)
		}
		cases = append(cases, c)
	})
	res := parallel(len(cases), func(i int) []byte { return runCase(cases[i], i) })
	w := bufio.NewWriterSize(os.Stdout, 1<<20)
	for _, l := range res {
		w.Write(l)
	}
	w.Flush()
}

// ---------------------------------------------------------------- C04 case generation
// leaf universe: one or more members per escaping class of string.go and per number class
var strLeaves = func() []string {
	s := []string{"a", "abc", "hello world", "\"", "a\"b", "\\", "a\\b", "/", "a/b", "<", ">", "&", "<a&b>",
		" ", "a b", "\x7f", "a\x7fb", "é", "€", "\U0001F600", "xé€\U0001F600y", "�", "a�b",
		// invalid UTF-8: lone continuation, truncated leads (end / middle), overlong, surrogate, 0xff, beyond U+10FFFF, runs
		"\x80", "a\x80b", "\xc3", "\xc3a", "\xe2\x82", "\xe2\x82a", "\xf0\x9f\x98", "\xc0\x80", "\xe0\x80\x80", "\xed\xa0\x80",
		"\xff", "a\xffb", "\xf4\x90\x80\x80", "a\x80\x80b", "é\xffé", "\xff�", "\xfe\xff",
		"true", "null", "123", "-1", " ", " a ", "a,b", "[x]", "{y}", "a:b", "'", "`", "#", "//", "\t", "\n", "\r\n", "\b\f",
		"0123456789012345678901234567890123456789012345678901234567890123", "01234567890123456789012345678901234567890123456789012345678901234"}
	for b := 0; b < 32; b++ {
		s = append(s, string([]byte{byte(b)}), "a"+string([]byte{byte(b)})+"b")
	}
	return s
}()

var intLeaves = []int64{1, -1, 42, math.MinInt64, math.MaxInt64, 1 << 31, -(1 << 31) - 1, 1000000, 9007199254740993, 10}
var fltLeaves = []float64{0.1, 1e21, 1e-7, 5e-324, math.MaxFloat64, 3.0, -2.5, 1e20, 123456789.0, 1e15, 1e-5, 0.000001,
	-1e21, 1.5e300, 2.2250738585072014e-308, 0.3, 100, 1e6, 123456.789, -0.1, float64(1 << 53), 1e22, 4.35, 0.000123}
// whole-number floats at and around every integer boundary a fast path could use (int64, uint64, 2^53, int32, uint32,
// powers of ten up to the point where strconv switches to exponent form)
var wholeFloats = func() []float64 {
	p63, p53, p31, p32, p64, p62 := math.Ldexp(1, 63), math.Ldexp(1, 53), math.Ldexp(1, 31), math.Ldexp(1, 32), math.Ldexp(1, 64), math.Ldexp(1, 62)
	fs := []float64{}
	for _, f := range []float64{p63, p63 - 1024, p63 + 2048, p53, p53 + 2, p53 - 1, p31, p31 - 1, p32, p32 - 1, p64, p64 - 2048, p62, 1e15, 1e16, 1e17,
		1e18, 1e19, 1e20, 1e21, 1e22, 999999999999999, 123456789012345680, 9007199254740993} {
		fs = append(fs, f, -f)
	}
	return fs
}()

// float32 values (C04 only): written with the float32 shortest form, judged against the float32 midpoints
var f32Leaves = []float32{0.1, 1.5, 16777216, 16777218, 2147483648, 4294967296, 9223372036854775808, -9223372036854775808, 1e10, 1e15, 3e38, 1e-7, -2.5, 100}

func aF32(f float32) M { return M{"t": "f32", "s": strconv.FormatFloat(float64(f), 'g', -1, 32)} }

// midpoints between a float32 and its float32 neighbours (exact decimals); finite neighbours only
func f32Midpoints(f float32) (lo, hi any) {
	fr := new(big.Rat).SetFloat64(float64(f))
	mid := func(a float32) *big.Rat {
		ar := new(big.Rat).SetFloat64(float64(a))
		if math.IsInf(float64(a), 0) {
			ar = new(big.Rat).SetFloat64(math.Ldexp(1, 128)) // the float32 overflow threshold's far side
			if a < 0 {
				ar.Neg(ar)
			}
		}
		x := new(big.Rat).Add(fr, ar)
		return x.Mul(x, big.NewRat(1, 2))
	}
	return absval.RatDec(mid(math.Nextafter32(f, float32(math.Inf(-1))))), absval.RatDec(mid(math.Nextafter32(f, float32(math.Inf(1)))))
}

var zeroLeaves = []M{aInt(0), aFlt(0), aFlt(math.Copysign(0, -1)), aBool(false)}
var keyUniverse = [][]string{
	{"a", "b", "c"}, {"b", "a", "c"}, {"", "a", "aa"}, {"A", "a", "B"}, {"k\"q", "k\\", "k/"}, {"<k>", "&", "k"},
	{"é", "e", "f"}, {" ", "z", " "}, {"\x01", "\x1f", "\x7f"}, {"k\xff", "k", "kk"}, {"key one", "key", "key2"},
	{"10", "9", "1"}, {"a b", "a", "a,"}, {"x", "xx", "xxx"}, {"true", "null", "1"}, {"\U0001F600", "€", "~"},
}

type filler struct {
	r  *rand.Rand
	n  int
	ks []string
}

func (f *filler) leaf() M {
	f.n++
	switch k := f.r.Intn(10); {
	case k < 5:
		return aStr(strLeaves[f.r.Intn(len(strLeaves))])
	case k < 7:
		return aInt(intLeaves[f.r.Intn(len(intLeaves))])
	case k < 9:
		if f.r.Intn(3) == 0 {
			return aFlt(wholeFloats[f.r.Intn(len(wholeFloats))])
		}
		return aFlt(fltLeaves[f.r.Intn(len(fltLeaves))])
	default:
		return aBool(true)
	}
}

type shape struct {
	T string  `json:"t"`
	C []shape `json:"c"`
}

func (f *filler) fill(s shape) M {
	switch s.T {
	case "L":
		return f.leaf()
	case "N":
		return aNull()
	case "E":
		return aStr("")
	case "Z":
		return zeroLeaves[f.r.Intn(len(zeroLeaves))]
	case "A":
		if len(s.C) == 0 && f.r.Intn(4) == 0 {
			return aNilArr()
		}
		vs := make([]any, len(s.C))
		for i, c := range s.C {
			vs[i] = f.fill(c)
		}
		return aArr(vs...)
	case "O":
		kv := []any{}
		for i, c := range s.C {
			kv = append(kv, f.ks[i%len(f.ks)], f.fill(c))
		}
		return aObj(kv...)
	}
	panic("bad shape " + s.T)
}

var indents = []int{0, 1, 2, 9}
var pWidths = []int{1, 20, 80, 200}
var pDepths = []int{1, 2, 3, 9}

func optsOf(k int) opts {
	return opts{Indent: indents[k&3], Tab: k&4 != 0, Sort: k&8 != 0, OmitNil: k&16 != 0, OmitEmpty: k&32 != 0, HTMLUnsafe: k&64 != 0}
}

func pcfgOf(k int) pcfg {
	return pcfg{W: pWidths[k&3], D: pDepths[(k>>2)&3], Al: k&16 != 0}
}

func genCases(args []string) {
	fs := flag.NewFlagSet("gen", flag.ExitOnError)
	shp := fs.String("shapes", "", "ndjson of TLC-enumerated tree shapes")
	reps := fs.Int("reps", 2, "option sets per shape")
	tier := fs.String("tier", "quick", "quick|thorough")
	tbl := fs.String("tables", "", "ndjson of TLC-enumerated table shapes (rows x keys, present/absent)")
	het := fs.String("hetero", "", "ndjson of TLC-enumerated column profiles (cell kind per row)")
	flc := fs.String("floats", "", "ndjson of TLC-enumerated float shape classes (significant digits x decimal exponent x sign x pattern)")
	fs.Parse(args)
	r := rand.New(rand.NewSource(seed()))
	w := bufio.NewWriterSize(os.Stdout, 1<<20)
	defer w.Flush()
	var all [][]byte
	emit := func(t M, o opts, ps []pcfg, src string) { all = append(all, line(wcase{Tree: t, O: o, P: ps, Src: src})) }
	quick := *tier != "thorough"
	defer func() {
		// interleave the families so that equal-sized chunks of the trace cost about the same to validate
		n := len(all)
		stride := 7919
		for n%stride == 0 {
			stride += 2
		}
		for i := 0; i < n; i++ {
			w.Write(all[(i*stride)%n])
		}
		w.Flush()
	}()

	// (0) TLC table shapes for the aligned layout of pretty: every shape under two key menus, Sort off and on
	for i, tc := range tableCases(*tbl, quick) {
		ok := 64 * (i & 1) // htmlunsafe alternates
		if (i/2)&1 == 1 {
			ok |= 8 // sort
		}
		emit(tc.tree, optsOf(ok), tc.p, "table")
	}
	// (0b) aligned tables with heterogeneous columns
	for i, tc := range heteroCases(*het, quick) {
		ok := 64 * (i & 1)
		if (i/2)&1 == 1 {
			ok |= 8
		}
		emit(tc.tree, optsOf(ok), tc.p, "hetero")
	}
	// (0c) deep chains with siblings
	for _, dc := range deepCases(quick) {
		emit(dc.tree, dc.o, dc.p, "deep")
	}
	// (0d) size classes of the fixed tables
	for _, sc := range sizeCases(quick) {
		emit(sc.tree, sc.o, sc.p, "size")
	}
	// (0e) floats of every shape class: six per array, and as member values
	{
		fl := classFloats(*flc)
		for i := 0; i < len(fl); i += 6 {
			j := i + 6
			if j > len(fl) {
				j = len(fl)
			}
			vs := []any{}
			kv := []any{}
			for k, f := range fl[i:j] {
				vs = append(vs, aFlt(f))
				kv = append(kv, string(rune('a'+k)), aFlt(f))
			}
			n := i / 6
			emit(aArr(vs...), optsOf([]int{0, 2, 8 + 1, 64 + 4}[n%4]), []pcfg{pcfgOf(n % 32)}, "fclass")
			emit(aObj(kv...), optsOf([]int{8, 8 + 2, 8 + 64}[n%3]), []pcfg{pcfgOf((n + 16) % 32)}, "fclass")
		}
	}
	// (1) TLC shapes x leaves x options: every shape meets every option bit in both polarities over the run
	var shapes []shape
	if *shp != "" {
		f, err := os.Open(*shp)
		if err != nil {
			panic(err)
		}
		readLines(f, func(l []byte) {
			var s shape
			if err := json.Unmarshal(l, &s); err != nil {
				panic(err)
			}
			shapes = append(shapes, s)
		})
	}
	// every shape goes through the four emission paths of oj (tight / indented x unsorted / sorted); the omit flags,
	// the indent width, tab and htmlunsafe rotate with the shape index and the seed
	off := int(seed() % 128)
	for i, s := range shapes {
		for k := 0; k < *reps; k++ {
			f := &filler{r: r, ks: keyUniverse[r.Intn(len(keyUniverse))]}
			ok := 0
			if k&1 != 0 {
				ok |= 8 // sort
			}
			if k&2 != 0 {
				switch (i + k/4 + off) % 4 {
				case 0:
					ok |= 1
				case 1:
					ok |= 2
				case 2:
					ok |= 3
				default:
					ok |= 4 + (i & 1)
				}
			}
			ok |= ((i + k + k/4 + off) % 4) << 4 // omitnil / omitempty
			ok |= ((i/4 + k + off/4) % 2) << 6   // htmlunsafe
			pk := (i*11 + k*7 + off) % 32
			emit(f.fill(s), optsOf(ok), []pcfg{pcfgOf(pk), pcfgOf((pk + 13) % 32)}, fmt.Sprintf("shape%d", i))
		}
	}
	// (2) leaf sweep: every leaf of the universe at top level, in an array, as a member value and as a key
	var leaves []M
	for _, s := range strLeaves {
		leaves = append(leaves, aStr(s))
	}
	leaves = append(leaves, aStr(""), aNull(), aBool(true), aBool(false), aNilArr(), aArr(), aObj())
	for _, i := range intLeaves {
		leaves = append(leaves, aInt(i))
	}
	for _, f := range fltLeaves {
		leaves = append(leaves, aFlt(f))
	}
	for _, f := range wholeFloats {
		leaves = append(leaves, aFlt(f))
	}
	for _, f := range f32Leaves {
		leaves = append(leaves, aF32(f))
	}
	leaves = append(leaves, zeroLeaves...)
	for li, lf := range leaves {
		ctxs := []M{lf, aArr(lf), aArr(aInt(1), lf, aInt(2)), aObj("k", lf), aObj("a", aInt(1), "k", lf), aObj("k", lf, "z", aInt(1))}
		if lf["t"] == "str" {
			k := string(bytesOf(anyInts(lf["v"])))
			ctxs = append(ctxs, aObj(k, aInt(1)), aObj(k, aInt(1), "a", aInt(2), "z", aNull()))
		}
		for ci, t := range ctxs {
			if quick && (ci == 1 || ci == 3 || ci == 5 || ci == 7) {
				continue
			}
			oks := []int{0, 64, 2 + 8, 64 + 8 + 2, 16 + 32, 16 + 32 + 64 + 1, 4 + 8}
			for oi, ok := range oks {
				if quick && oi >= 2 && oi != 2+(li+ci+int(seed()))%5 {
					continue
				}
				pk := (li + ci*5 + ok) % 32
				emit(t, optsOf(ok), []pcfg{pcfgOf(pk)}, "leaf")
			}
		}
	}
	// (3) nesting 1..140: indentation beyond the 128-byte indent string (indent 9: depth 15, indent 2: depth 65,
	// indent 1: depth 129) and beyond the 30 tabs (depth 31); the heavy (long-text) cases are thinned in the quick tier
	type nd struct {
		ok     int
		depths []int
	}
	plan := []nd{
		{0, []int{1, 2, 3, 7, 64, 140}}, {8, []int{3, 140}},
		{3, []int{13, 14, 15, 16, 29}}, {8 + 3, []int{14, 15}},
		{2, []int{63, 64, 65, 66}}, {1, []int{127, 128, 129, 140}}, {4, []int{29, 30, 31, 32, 140}}, {8 + 4, []int{31}},
	}
	if quick {
		plan = []nd{{0, []int{1, 3, 140}}, {3, []int{14, 15, 16}}, {8 + 3, []int{15}}, {2, []int{64, 65}}, {1, []int{129}}, {4, []int{30, 31, 32}}}
	}
	for _, pl := range plan {
		for _, d := range pl.depths {
			for variant := 0; variant < 3; variant++ {
				if (quick || d > 100) && d > 60 && pl.ok != 0 && variant != int(seed()+int64(d))%3 {
					continue // long texts: one variant per run
				}
				var t M = aInt(int64(d))
				if variant == 2 {
					t = aArr()
				}
				for k := 0; k < d; k++ {
					switch {
					case variant == 0 || (variant == 2 && k%2 == 0):
						t = aArr(t)
					default:
						t = aObj("k", t)
					}
				}
				emit(t, optsOf(pl.ok), []pcfg{pcfgOf((d + pl.ok) % 32)}, "nest")
			}
		}
	}
	// (4) objects whose last 1..3 members (in key order) are omitted, and all members omitted
	droppers := []M{aNull(), aStr(""), aArr(), aObj(), aNilArr(), aObj("n", aNull()), aInt(0), aBool(false)}
	for total := 1; total <= 4; total++ {
		for last := 1; last <= total && last <= 3; last++ {
			for di, dv := range droppers {
				kv := []any{}
				for k := 0; k < total; k++ {
					var v any = aInt(int64(k + 1))
					if k >= total-last {
						v = dv
						if k%2 == 1 && di < 4 {
							v = droppers[(di+1)%4]
						}
					}
					kv = append(kv, string(rune('a'+k)), v)
				}
				t := aObj(kv...)
				for _, wrap := range []M{t, aArr(t, aInt(7)), aObj("in", t, "z", aInt(1)), aArr(t, t)} {
					for _, ok := range []int{16, 32, 48, 16 + 8, 32 + 8 + 2, 48 + 8 + 1, 16 + 2, 32 + 4, 48 + 9} {
						if quick && (total+last+di+ok)%6 != int(seed()%6) {
							continue
						}
						emit(wrap, optsOf(ok), []pcfg{pcfgOf((total*7 + last*3 + di) % 32), pcfgOf(16 + (di+ok)%16)}, "omit")
					}
				}
			}
		}
	}
	// (5) rows for the aligned layout of pretty: arrays of objects / arrays with missing columns at every position
	rowsets := [][]M{
		{aObj("a", aInt(1), "b", aInt(2), "c", aInt(3)), aObj("a", aInt(10), "b", aInt(20))},
		{aObj("a", aInt(1), "b", aInt(2), "c", aInt(3)), aObj("b", aInt(20), "c", aInt(30))},
		{aObj("a", aInt(1), "b", aInt(2), "c", aInt(3)), aObj("a", aInt(10), "c", aInt(30))},
		{aObj("a", aInt(1), "b", aInt(2), "c", aInt(3)), aObj("a", aInt(10))},
		{aObj("a", aInt(1), "b", aInt(2), "c", aInt(3)), aObj("c", aInt(10))},
		{aObj("a", aInt(1), "b", aInt(2), "c", aInt(3)), aObj()},
		{aObj("a", aStr("x"), "b", aStr("yy")), aObj("a", aStr("xxx"), "b", aStr("y"))},
		{aObj("a", aStr("x"), "b", aNull()), aObj("a", aNull(), "b", aStr("y"))},
		{aObj("a", aArr(aInt(1), aInt(2)), "b", aObj("x", aInt(1))), aObj("a", aArr(aInt(1)), "b", aObj("x", aInt(100), "y", aInt(2)))},
		{aArr(aInt(1), aInt(2), aInt(3)), aArr(aInt(10), aInt(20))},
		{aArr(aInt(1), aStr("a")), aArr(aStr("bbb"), aInt(200)), aArr()},
		{aArr(aArr(aInt(1)), aArr(aInt(2), aInt(3))), aArr(aArr(aInt(11), aInt(12)), aArr())},
		{aArr(aObj("a", aInt(1)), aObj("b", aInt(2))), aArr(aObj("a", aInt(1), "b", aInt(2)))},
		{aObj("k\"", aInt(1), "<", aFlt(0.5)), aObj("k\"", aInt(100))},
	}
	for ri, rows := range rowsets {
		vs := make([]any, len(rows))
		for i := range rows {
			vs[i] = rows[i]
		}
		t := aArr(vs...)
		rev := aArr(vs[1], vs[0])
		for _, tt := range []M{t, rev, aObj("rows", t), aArr(t, t)} {
			for _, ok := range []int{0, 64, 16, 32, 48} {
				for _, pk := range []int{16 + 2, 16 + 2 + 8, 16 + 3 + 12, 16 + 1 + 4, 2, 16 + 0 + 8} {
					if quick && (ri+ok+pk)%4 != int(seed()%4) {
						continue
					}
					emit(tt, optsOf(ok), []pcfg{pcfgOf(pk)}, "align")
				}
			}
		}
	}
}

func anyInts(v any) any {
	switch t := v.(type) {
	case []int:
		a := make([]any, len(t))
		for i, x := range t {
			a[i] = float64(x)
		}
		return a
	}
	return v
}

// ---------------------------------------------------------------- table trees for the aligned layout (C04 and C10)
// key menus by byte class: bare keys mixed with keys that need quotes in SEN (space, delimiter, digit-leading, escape),
// reserved spellings, upper/lower case, bytes below '"' - the raw order and the encoded order differ in both directions
var keyMenus = [][]string{
	{"id", "user name", "a", "z z"}, {"a b", "id", "zz", "1st"}, {"B", "a", "true", "k:"}, {"name", "first name", "x", "q\"x"},
	{"~", "a", "A b", "m,"}, {"a", "a b", "a!", "ab"}, {"é", "e f", "z", "Z"}, {"null", "n", "0", "[k]"},
	{"b", "a", "d", "c"}, {"x y", "x", "x z", "w"},
}

type tableShape struct {
	K    int      `json:"k"`
	Rows [][]bool `json:"rows"`
}

type tableCase struct {
	tree M
	p    []pcfg
}

func tableCases(path string, quick bool) []tableCase {
	if path == "" {
		return nil
	}
	f, err := os.Open(path)
	if err != nil {
		panic(err)
	}
	var res []tableCase
	cells := []M{aInt(1), aStr("x"), aInt(100), aStr("ann"), aInt(22), aBool(true), aStr("a b"), aFlt(0.5)}
	i := 0
	readLines(f, func(l []byte) {
		var ts tableShape
		if err := json.Unmarshal(l, &ts); err != nil {
			panic(err)
		}
		i++
		menus := 2
		if !quick {
			menus = 3
		}
		for m := 0; m < menus; m++ {
			menu := keyMenus[(i+m*3+int(seed()))%len(keyMenus)]
			rot := (i/3 + m) % 4
			rows := make([]any, len(ts.Rows))
			for ri, row := range ts.Rows {
				kv := []any{}
				for ki, present := range row {
					if present {
						kv = append(kv, menu[(ki+rot)%4], cells[(i+ri*3+ki+m)%len(cells)])
					}
				}
				rows[ri] = aObj(kv...)
			}
			var t M = aArr(rows...)
			if i%7 == 0 {
				t = aObj("rows", t, "n", aInt(int64(len(rows))))
			}
			// widths at which the table layout is chosen (80, 200) and one at which it often is not (20)
			ps := []pcfg{{W: 80, D: 3, Al: true}, {W: 200, D: 9, Al: true}}
			if (i+m)%3 == 0 {
				ps[1] = pcfg{W: 20, D: 3, Al: true}
			}
			if (i+m)%5 == 0 {
				ps[0] = pcfg{W: 80, D: 2, Al: true}
			}
			res = append(res, tableCase{t, ps})
		}
	})
	return res
}

// ---------------------------------------------------------------- aligned tables with heterogeneous columns (C04 and C10)
type heteroProfile struct {
	Col []string `json:"col"`
}

// a cell of the given kind; v varies the content
func heteroCell(kind string, v int) (M, bool) {
	switch kind {
	case "s":
		return []M{aInt(1), aStr("x"), aInt(333), aStr("yy"), aBool(true), aInt(22)}[v%6], true
	case "a":
		return []M{aArr(aInt(1), aInt(2)), aArr(aInt(1), aInt(2), aInt(3)), aArr(aStr("p"), aInt(7))}[v%3], true
	case "m":
		return []M{aObj("a", aInt(1)), aObj("a", aInt(1), "b", aInt(5)), aObj("b", aStr("q"), "c c", aInt(4))}[v%3], true
	case "ea":
		return aArr(), true
	case "em":
		return aObj(), true
	case "n2":
		return []M{aArr(aArr(aInt(1)), aObj("a", aArr(aInt(2)))), aObj("a", aObj("b", aInt(1)), "c", aArr(aInt(1), aArr(aInt(2)))),
			aArr(aArr(aInt(1), aInt(2)), aArr(aInt(3)))}[v%3], true
	}
	return nil, false // "x": missing
}

// depth as pretty counts it (pretty/build.go: a leaf and an empty container have depth 0)
func prettyDepth(t M) int {
	d := 0
	switch t["t"] {
	case "arr", "obj":
		for _, e := range t["v"].([]any) {
			if x := prettyDepth(e.(M)) + 1; x > d {
				d = x
			}
		}
	}
	return d
}

var heteroKinds = []string{"s", "a", "m", "ea", "em", "n2", "x"}

func heteroCases(path string, quick bool) []tableCase {
	if path == "" {
		return nil
	}
	f, err := os.Open(path)
	if err != nil {
		panic(err)
	}
	var res []tableCase
	i := 0
	readLines(f, func(l []byte) {
		var hp heteroProfile
		if err := json.Unmarshal(l, &hp); err != nil {
			panic(err)
		}
		i++
		variants := 1
		if !quick {
			variants = 2
		}
		for v := 0; v < variants; v++ {
			for rk := 0; rk < 2; rk++ { // 0: rows are arrays, 1: rows are maps
				first := (i+v+rk)%2 == 0 // the profiled column comes first / second
				rows := make([]any, len(hp.Col))
				for ri, kind := range hp.Col {
					c1, ok1 := heteroCell(kind, i+ri+v)
					c2, ok2 := heteroCell(heteroKinds[(i/2+ri*3+v+rk)%7], i+ri*2+v+1)
					c3, _ := heteroCell("s", i+ri+v+2)
					if !first {
						c1, ok1, c2, ok2 = c2, ok2, c1, ok1
					}
					if rk == 0 {
						// array rows: a missing cell can only shorten the row; inside the row it is written as null
						cells := []any{}
						switch {
						case ok1 && ok2:
							cells = append(cells, c1, c2, c3)
						case ok1:
							cells = append(cells, c1)
						case ok2:
							cells = append(cells, aNull(), c2, c3)
						}
						rows[ri] = aArr(cells...)
					} else {
						kv := []any{}
						if ok1 {
							kv = append(kv, "k", c1)
						}
						if ok2 {
							kv = append(kv, "m m", c2)
						}
						if (i+ri)%4 != 0 {
							kv = append(kv, "z", c3)
						}
						rows[ri] = aObj(kv...)
					}
				}
				var t M = aArr(rows...)
				d := prettyDepth(t)
				if d < 1 {
					d = 1
				}
				if d > 8 {
					d = 8
				}
				if (i+v)%6 == 0 {
					t = aObj("rows", t, "n", aInt(int64(len(rows))))
				}
				// the align path needs: not flat (depth >= MaxDepth or too wide), depth <= MaxDepth, table fits Width
				ps := []pcfg{{W: 200, D: d, Al: true}, {W: 80, D: d, Al: true}}
				if (i+v)%3 == 0 {
					ps[1] = pcfg{W: 48, D: d + 1, Al: true} // flat fails by width only
				}
				res = append(res, tableCase{t, ps})
			}
		}
	})
	return res
}

// ---------------------------------------------------------------- deep family (C04 and C10)
// Chains of arrays / objects / mixed whose innermost AND some intermediate containers have two or more members, deep enough
// to leave the 128/256-byte indentation tables of oj, sen and pretty (depth x indent crossing 128 and 256) and pretty's
// "deeper than the table: fall back to flat" branch (depth >= 128).
func deepTree(depth, pattern int) M {
	var t M
	if pattern == 1 {
		t = aObj("a", aInt(1), "b", aStr("x"), "c", aInt(22))
	} else {
		t = aArr(aInt(1), aStr("x"), aInt(22))
	}
	for k := depth - 2; k >= 0; k-- {
		isObj := pattern == 1 || (pattern == 2 && k%2 == 1)
		switch {
		case isObj && k%3 == 0:
			t = aObj("a", aInt(int64(k)), "k", t, "z", aStr("s"))
		case isObj && k%3 == 2:
			t = aObj("k", t, "z", aStr("yy"))
		case isObj:
			t = aObj("k", t)
		case k%3 == 0:
			t = aArr(aInt(int64(k)), t, aStr("s"))
		case k%3 == 2:
			t = aArr(t, aStr("yy"))
		default:
			t = aArr(t)
		}
	}
	return t
}

type deepCase struct {
	tree M
	o    opts
	p    []pcfg
}

func deepCases(quick bool) []deepCase {
	var res []deepCase
	sd := int(seed())
	pcs := [][]pcfg{{{W: 80, D: 3, Al: false}, {W: 200, D: 9, Al: true}}, {{W: 20, D: 2, Al: false}, {W: 1, D: 1, Al: true}},
		{{W: 200, D: 3, Al: true}, {W: 80, D: 9, Al: false}}}
	n := 0
	add := func(depth, pattern int, o opts) {
		n++
		res = append(res, deepCase{deepTree(depth, pattern), o, pcs[(n+sd)%3]})
	}
	for di, d := range []int{60, 127, 128, 129, 200, 300} {
		for pat := 0; pat < 3; pat++ {
			if quick && pat != (di+sd)%3 {
				continue
			}
			// (objects with several members are written with Sort: without it every call emits its own member order and
			// every one of the long texts has to be judged separately)
			add(d, pat, opts{HTMLUnsafe: true, Sort: pat != 0})
			if !quick || (di+sd)%2 == 0 {
				add(d, pat, opts{Sort: true, Indent: 0, OmitNil: true})
			}
		}
	}
	// depth x indent crossing the 128- and the 256-byte tables
	for ind := 1; ind <= 8; ind++ {
		for _, size := range []int{128, 256} {
			base := size/ind + 1
			if base > 300 || (quick && size == 256 && ind != 2 && ind != 4 && ind != 8) {
				continue
			}
			if size == 256 && ind == 1 {
				continue // 257 levels x 129-byte lines: very long texts, the 256 crossing is covered by indent 2..8
			}
			ds := []int{base}
			if !quick {
				ds = []int{base - 1, base, base + 1}
			}
			for _, d := range ds {
				if d > 300 {
					continue
				}
				pats := []int{(ind + d + sd) % 3}
				if !quick && d == base {
					pats = []int{0, 1, 2}
				}
				for _, pat := range pats {
					add(d, pat, opts{Indent: ind, Sort: pat != 0 || ind%2 == 0})
				}
			}
		}
	}
	add(33, 2, opts{Tab: true, Sort: true})
	add(129, 0, opts{Tab: true})
	return res
}

// ---------------------------------------------------------------- size-class family (C04 and C10)
// Every length that indexes one of the fixed tables of oj / sen / pretty (the 128-byte `spaces`, the tabs, pretty's padding
// slices spaces[1:cw-size+1], spaces[1:pad+1], the key padding of an aligned multi-line object, SEN's 64-byte token limit):
// keys and string values of length 0, 1, 64, 65, 127, 128, 129, 200, 300 mixed with short ones in one object / one table
// column, under Width 1, 40, 127, 128, 129, 256, 1000 with and without Align and under the indenting oj / sen writers.
var sizeClasses = []int{0, 1, 64, 65, 127, 128, 129, 200, 300}

func sized(n int, c byte) string {
	b := make([]byte, n)
	for i := range b {
		b[i] = c
	}
	if n > 2 {
		b[0], b[n-1] = 'K', 'e'
	}
	return string(b)
}

func sizeCases(quick bool) []deepCase {
	var res []deepCase
	sd := int(seed())
	widths := []int{1, 40, 127, 128, 129, 256, 1000}
	oset := []opts{{HTMLUnsafe: true}, {Indent: 2, Sort: true}, {Indent: 9}, {Tab: true, Sort: true}, {Sort: true}}
	n := 0
	for _, ln := range sizeClasses {
		k := sized(ln, 'k')
		v := sized(ln, 'v')
		near := sized(100+ln%28, 'w') // 100..127: an aligned column close to pretty's Width clamp (128)
		trees := []M{
			// an object laid out over several lines whose keys differ by ln bytes (key padding under Align)
			aObj(k, aInt(1), "a", aStr("x"), "bb", aArr(aInt(1), aInt(2))),
			aObj(k, aObj("in", aInt(1), k+"2", aStr("y")), "a", aInt(2)),
			// aligned rows with a long key / a long cell / a missing long column
			aArr(aObj(k, aInt(1), "a", aInt(2)), aObj(k, aInt(3), "a", aInt(4), "b", aInt(5))),
			aArr(aObj("a", aStr(v), "b", aInt(1)), aObj("a", aStr("x"), "b", aInt(22))),
			aArr(aArr(aStr(v), aInt(1)), aArr(aStr("y"), aInt(22)), aArr()),
			aArr(aObj("a", aStr(near), "b", aInt(1)), aObj("a", aStr("x"), "b", aInt(22), "c", aStr("z"))),
			// string values and keys of the size at top level and nested
			aArr(aStr(v), aObj("k", aStr(v), "a", aInt(1))),
			aObj("o", aObj(k, aStr(v)), "z", aArr(aStr(v), aStr("s"))),
		}
		for ti, t := range trees {
			if quick && (ti == 1 || ti == 7) && (ln+sd)%2 == 0 {
				continue
			}
			if ln > 300 {
				break
			}
			// all 14 (Width, Align) settings, spread over cases of 4-5 settings each; MaxDepth 3 and 1
			for part := 0; part < 3; part++ {
				ps := []pcfg{}
				for wi, w := range widths {
					for ai := 0; ai < 2; ai++ {
						if (wi*2+ai)%3 == part {
							ps = append(ps, pcfg{W: w, D: []int{3, 1, 2}[(wi+ai+n)%3], Al: ai == 0})
						}
					}
				}
				n++
				res = append(res, deepCase{t, oset[(n+sd)%len(oset)], ps})
			}
		}
	}
	// lengths around every buffer constant of the writers (InitSize 256, the 1024-byte initial buffers and the default
	// WriteLimit 1024, 4096 = the readers' buffer and a natural block size): raw lengths N-2..N+2 and lengths whose ESCAPED
	// form crosses N while the raw form does not (control characters: 6 bytes each, quotes: 2 bytes each); as top-level
	// value, and as array element + member value + key in one tree
	type big struct {
		n int
		c byte
	}
	var bigs []big
	for _, N := range []int{256, 1024, 4096} {
		for d := -2; d <= 2; d++ {
			if quick && N == 1024 && (d == -2 || d == 2) {
				continue
			}
			bigs = append(bigs, big{N + d, 'v'})
		}
		for _, e := range []int{(N - 2) / 6, (N-2)/6 + 1} {
			bigs = append(bigs, big{e, 1}) // \u0001 x e: 6e+2 encoded bytes around N
		}
		bigs = append(bigs, big{(N - 2) / 2, '"'}, big{(N-2)/2 + 1, '"'})
	}
	if !quick {
		bigs = append(bigs, big{700, 1}, big{10000, 'v'}, big{8190, 'v'}, big{8193, 'v'}, big{70000, 'v'})
	}
	for bi, b := range bigs {
		sv := sized(b.n, b.c)
		if b.c != 'v' {
			sv = string(bytes.Repeat([]byte{b.c}, b.n))
		}
		kk := sv
		if len(kk) > 1 {
			kk = "k" + kk[1:]
		}
		ps := []pcfg{{W: 80, D: 3, Al: bi%2 == 0}, {W: 1000, D: 2, Al: bi%2 == 1}}
		res = append(res, deepCase{aStr(sv), oset[(bi+sd)%len(oset)], ps[:1]})
		if b.n > 20000 {
			continue // the very long one as top-level value only (the combined tree costs TLC minutes)
		}
		res = append(res, deepCase{aArr(aStr(sv), aObj(kk, aInt(1), "a", aStr(sv))), oset[(bi+sd+1)%len(oset)], ps})
	}
	return res
}

// ---------------------------------------------------------------- floats by shape class (C04 and C10)
type floatClass struct {
	Sig int    `json:"sig"`
	Exp int    `json:"exp"`
	Neg bool   `json:"neg"`
	Pat string `json:"pat"`
}

// classFloats reads the TLC-enumerated classes, writes each as the decimal text d.ddd...e(exp) with the wanted number of
// significant digits and returns the float64 nearest to each text (duplicates, zeros and infinities dropped).
func classFloats(path string) []float64 {
	if path == "" {
		return nil
	}
	f, err := os.Open(path)
	if err != nil {
		panic(err)
	}
	var res []float64
	seen := map[float64]bool{}
	readLines(f, func(l []byte) {
		var c floatClass
		if err := json.Unmarshal(l, &c); err != nil {
			panic(err)
		}
		ds := make([]byte, c.Sig)
		for i := range ds {
			switch c.Pat {
			case "nines":
				ds[i] = '9'
			case "ones":
				ds[i] = '1'
			default:
				ds[i] = "1234567890123456789"[i%19]
			}
		}
		if c.Pat == "nines" && c.Sig > 1 {
			ds[c.Sig-1] = '7' // keep the last digit significant in the shortest form
		}
		txt := string(ds[:1])
		if c.Sig > 1 {
			txt += "." + string(ds[1:])
		}
		txt += "e" + strconv.Itoa(c.Exp)
		if c.Neg {
			txt = "-" + txt
		}
		v, err := strconv.ParseFloat(txt, 64)
		if err != nil || v == 0 || math.IsInf(v, 0) || seen[v] {
			return
		}
		seen[v] = true
		res = append(res, v)
	})
	sort.Float64s(res)
	return res
}
