package main

func senGen(args []string)  {}
func senExec(args []string) {}
