package main

// C10: SEN writer -> SEN parser round trip. The driver writes a value with the real SEN writers, parses the
// emitted bytes with a fresh sen.Parser (the memoryless reading of sen.Parse; parser reuse is C07) and records
// {value, options, api, text, parsed value | error}. The trace specification TraceSen decides parsed = value.

import (
	"bufio"
	"encoding/json"
	"flag"
	"fmt"
	"math"
	"math/big"
	"math/rand"
	"os"
	"runtime"
	"sort"
	"strconv"
	"strings"
	"sync"
	"time"

	"github.com/ohler55/ojg"
	"github.com/ohler55/ojg/pretty"
	"github.com/ohler55/ojg/sen"

	"verif/harness/absval"
)

type scase struct {
	Tree M      `json:"tree"`
	O    opts   `json:"o"`
	P    []pcfg `json:"p"`
	Src  string `json:"src,omitempty"`
}

type sout struct {
	As []string `json:"as"` // the calls that produced exactly this text
	X  []int    `json:"x"`  // the emitted text
	R  any      `json:"r"`  // parsed value (abstract form) or {"t":"none"}
	Ek string   `json:"ek"` // "" | write-error | write-panic | parse-error | parse-panic
	E  string   `json:"e"`  // the message
}

// project turns what sen.Parse returned into the abstract form (numbers with their exact decimal value)
func project(v any) M {
	switch t := v.(type) {
	case nil:
		return M{"t": "null"}
	case bool:
		return M{"t": "bool", "v": t}
	case int64:
		return M{"t": "int", "dec": absval.Dec(strconv.FormatInt(t, 10))}
	case int:
		return M{"t": "int", "dec": absval.Dec(strconv.Itoa(t))}
	case float64:
		if math.IsInf(t, 0) || math.IsNaN(t) {
			return M{"t": "other", "go": "inf/nan"}
		}
		return M{"t": "flt", "dec": absval.RatDec(new(big.Rat).SetFloat64(t))}
	case json.Number:
		return M{"t": "big", "dec": absval.Dec(string(t))}
	case string:
		return M{"t": "str", "v": ints([]byte(t))}
	case time.Time:
		return M{"t": "other", "go": "time"}
	case []any:
		vs := make([]any, len(t))
		for i, e := range t {
			vs[i] = project(e)
		}
		return M{"t": "arr", "v": vs}
	case map[string]any:
		keys := make([]string, 0, len(t))
		for k := range t {
			keys = append(keys, k)
		}
		sort.Strings(keys)
		ks, vs := make([]any, len(keys)), make([]any, len(keys))
		for i, k := range keys {
			ks[i] = ints([]byte(k))
			vs[i] = project(t[k])
		}
		return M{"t": "obj", "k": ks, "v": vs}
	}
	return M{"t": "other", "go": fmt.Sprintf("%T", v)}
}

func readBack(text []byte) (r any, ek, e string) {
	r = M{"t": "none"}
	defer func() {
		if rec := recover(); rec != nil {
			ek, e = "parse-panic", fmt.Sprintf("%v", rec)
			r = M{"t": "none"}
		}
	}()
	p := sen.Parser{}
	v, err := p.Parse(text)
	if err != nil {
		return r, "parse-error", err.Error()
	}
	return compress(project(v)), "", ""
}

func maxWidth(t M) int {
	w := 0
	switch t["t"] {
	case "arr", "obj":
		vs := t["v"].([]any)
		if t["t"] == "obj" {
			w = len(vs)
		}
		for _, e := range vs {
			if x := maxWidth(e.(M)); x > w {
				w = x
			}
		}
	}
	return w
}

// what a worker is doing right now (for the watchdog: a reader that never returns cannot be recovered in-process)
type stage struct {
	idx   int
	since time.Time
	api   string
	text  []byte
	what  string // "write" | "parse"
}

var (
	stMu   sync.Mutex
	stages = map[int]*stage{}
)

func setStage(slot, idx int, what, api string, text []byte) {
	stMu.Lock()
	stages[slot] = &stage{idx: idx, since: time.Now(), api: api, text: text, what: what}
	stMu.Unlock()
}

func clearStage(slot int) {
	stMu.Lock()
	delete(stages, slot)
	stMu.Unlock()
}

func runSen(c scase, idx int) []byte {
	// Go maps have no order: with two or more members and Sort off, two calls may emit different texts and a known
	// quoting defect would surface under a different kind from run to run. Such trees are written with Sort on
	// (the unsorted emission path is still exercised by every tree whose objects have at most one member).
	if maxWidth(c.Tree) >= 2 {
		c.O.Sort = true
	}
	simple, full := build(c.Tree, false)
	type raw struct {
		api   string
		text  []byte
		ek, e string
	}
	var raws []raw
	call := func(api string, fn func() ([]byte, error)) {
		r := raw{api: api}
		setStage(idx, idx, "write", api, nil)
		func() {
			defer func() {
				if rec := recover(); rec != nil {
					r.ek, r.e = "write-panic", fmt.Sprintf("%v", rec)
				}
			}()
			b, err := fn()
			if err != nil {
				r.ek, r.e = "write-error", err.Error()
			}
			r.text = append([]byte{}, b...)
		}()
		raws = append(raws, r)
	}
	so := func(limit int) *ojg.Options {
		return &ojg.Options{Indent: c.O.Indent, Tab: c.O.Tab, Sort: c.O.Sort, HTMLUnsafe: c.O.HTMLUnsafe, WriteLimit: limit}
	}
	call("sen.String", func() ([]byte, error) { return []byte(sen.String(simple, so(0))), nil })
	call("sen.Bytes", func() ([]byte, error) { return sen.Bytes(simple, so(0)), nil })
	n := len(raws[0].text)
	for _, l := range []int{1, n/2 + 1, n + 1} {
		l := l
		call("sen.Write", func() ([]byte, error) {
			r := &recorder{}
			err := sen.Write(r, simple, so(l))
			var b []byte
			for _, ch := range r.chunks {
				for _, x := range ch {
					b = append(b, byte(x))
				}
			}
			return b, err
		})
	}
	for _, p := range c.P {
		p := p
		wd := float64(p.W) + float64(p.D)/10.0
		call("pretty.SEN", func() ([]byte, error) { return []byte(pretty.SEN(simple, wd, p.Al, so(0))), nil })
		for _, l := range []int{1, 1024} {
			l := l
			call("pretty.WriteSEN", func() ([]byte, error) {
				r := &recorder{}
				err := pretty.WriteSEN(r, simple, wd, p.Al, so(l))
				var b []byte
				for _, ch := range r.chunks {
					for _, x := range ch {
						b = append(b, byte(x))
					}
				}
				return b, err
			})
		}
	}
	var outs []sout
	idxOf := map[string]int{}
	for _, r := range raws {
		key := r.ek + "|" + r.e + "|" + string(r.text)
		if i, ok := idxOf[key]; ok {
			outs[i].As = append(outs[i].As, r.api)
			continue
		}
		o := sout{As: []string{r.api}, X: ints(r.text), Ek: r.ek, E: r.e, R: M{"t": "none"}}
		if r.ek == "" {
			setStage(idx, idx, "parse", r.api, r.text)
			o.R, o.Ek, o.E = readBack(r.text)
		}
		if len(o.E) > 100 {
			o.E = o.E[:100]
		}
		idxOf[key] = len(outs)
		outs = append(outs, o)
	}
	clearStage(idx)
	return line(M{"tree": compress(full), "o": c.O, "outs": outs, "src": c.Src})
}

// heapLimit: the driver itself stays below ~3 GiB on the largest thorough batch; a reader that loops while it appends
// passes any limit within seconds
const heapLimit = 10 << 30

// watchdog: a call that does not return within 15 s or a heap beyond heapLimit (a reader looping while it appends) means the
// real code hangs. Normal mode: report the cases in flight on stderr ("HANG i j k") and exit 3; the pipeline re-runs them
// one by one in -solo mode, where the hanging call is written to the trace as an event with ek = write-hang | parse-hang
// for TraceSen to judge.
func watchdog(solo bool, cases []scase) {
	for {
		time.Sleep(100 * time.Millisecond)
		var ms runtime.MemStats
		runtime.ReadMemStats(&ms)
		stMu.Lock()
		var stuck []*stage
		for _, st := range stages {
			if ms.HeapAlloc > heapLimit || time.Since(st.since) > 15*time.Second {
				stuck = append(stuck, st)
			}
		}
		if len(stuck) > 0 {
			if solo {
				st := stuck[0]
				c := cases[st.idx]
				_, full := build(c.Tree, false)
				o := sout{As: []string{st.api}, X: ints(st.text), R: M{"t": "none"}, Ek: st.what + "-hang",
					E: "the call did not return (15 s) or the heap passed 10 GiB"}
				os.Stdout.Write(line(M{"tree": compress(full), "o": c.O, "outs": []sout{o}, "src": c.Src}))
				os.Exit(0)
			}
			ids := []string{}
			for _, st := range stuck {
				ids = append(ids, strconv.Itoa(st.idx))
			}
			fmt.Fprintf(os.Stderr, "HANG %s\n", strings.Join(ids, " "))
			os.Exit(3)
		}
		stMu.Unlock()
	}
}

func senExec(args []string) {
	fs := flag.NewFlagSet("senexec", flag.ExitOnError)
	solo := fs.Bool("solo", false, "one case, sequential; a hanging call becomes a trace event")
	fs.Parse(args)
	var cases []scase
	readLines(os.Stdin, func(l []byte) {
		var c scase
		if err := json.Unmarshal(l, &c); err != nil {
			panic(err)
		}
		cases = append(cases, c)
	})
	go watchdog(*solo, cases)
	res := parallel(len(cases), func(i int) []byte { return runSen(cases[i], i) })
	w := bufio.NewWriterSize(os.Stdout, 1<<20)
	for _, l := range res {
		w.Write(l)
	}
	w.Flush()
}

// ---------------------------------------------------------------- C10 case generation
// one representative per (senMap class x valueMap class x tokenMap class) of string.go / sen/maps.go, plus bytes that
// matter for the reserved spellings
var senReps = []byte{'a', 't', 'n', 'f', 'e', 'E', '0', '1', '9', '+', '-', '.', ' ', ',', ':', '/', '*', '(', ')', '[', ']', '{', '}',
	'"', '\'', '\\', '`', '|', '&', '<', '>', '=', '#', '!', '%', ';', '?', '@', '$', '^', '_', '~', '\t', '\n', '\r', 0x01, 0x7f,
	0x80, 0xc3, 0xe2, 0xff}

var reserved = []string{"true", "false", "null", "True", "nul", "nulll", "truex", "nil", "Nil", "None", "TRUE", "FALSE", "NULL", "Null", "False",
	"undefined", "yes", "no", "on", "off", "t", "f", "n", "tru", "fals", "Inf", "+Inf", "-Inf", "0b1", "0o7", "1_000", "1,5", "$1", "?", "a?b", "~a", "0", "1", "-1", "+1", "-", "+", "--", "+-", "-a", "+a",
	".5", "-.5", "1.5", "1e5", "1E5", "1e+5", "1e-5", "-0", "0.0", "1.", "01", "0x10", "123456789012345678901234567890", "1a", "a1",
	"//x", "/*", "/* c */", "a//b", "a/*b", "/", "#x", "a(b)", "f(", "ISODate(1)", "a:b", ":", "a b", " a", "a ", "a,b", ",", "[", "]", "{", "}",
	"[]", "{}", "\"", "'", "a\"b", "a'b", "\\", "a\\b", "`", "a`b", "|", "a|b", "&", "a&b", "<", "a<b", ">", "=", "a=b", "@", "$x", "*", "?",
	"é", "€", "\U0001F600", "x�", " ", " ", "\xff", "a\x80", "\xc3", "\t", "\n", "a\nb", "\x00", "\x7f", "~", "^", "_",
	"0123456789012345678901234567890123456789012345678901234567890123", "a123456789012345678901234567890123456789012345678901234567890123",
	"a1234567890123456789012345678901234567890123456789012345678901234", "-123456789012345678901234567890123456789012345678901234567890123",
	"nullnullnullnullnullnullnullnullnullnullnullnullnullnullnullnulln", "NaN", "Infinity", "-Infinity", "nan", "inf", "@2021-01-01", "2021-01-01T00:00:00Z"}

func senGen(args []string) {
	fs := flag.NewFlagSet("sengen", flag.ExitOnError)
	tier := fs.String("tier", "quick", "quick|thorough")
	shp := fs.String("shapes", "", "ndjson of TLC-enumerated tree shapes")
	pred := fs.String("pred", "", "ndjson of strings the SenText design check predicts not to survive")
	tbl := fs.String("tables", "", "ndjson of TLC-enumerated table shapes (rows x keys, present/absent)")
	het := fs.String("hetero", "", "ndjson of TLC-enumerated column profiles (cell kind per row)")
	flc := fs.String("floats", "", "ndjson of TLC-enumerated float shape classes")
	fs.Parse(args)
	quick := *tier != "thorough"
	r := rand.New(rand.NewSource(seed()))
	var all [][]byte
	emit := func(t M, o opts, ps []pcfg, src string) { all = append(all, line(scase{Tree: t, O: o, P: ps, Src: src})) }
	sopts := func(k int) opts {
		return opts{Indent: []int{0, 2, 0, 9}[k&3], Tab: k&3 == 2, Sort: k&4 != 0, HTMLUnsafe: k&8 != 0}
	}
	// every string in the four contexts: top level, array element, member value, member KEY
	ctxs := func(s string) []M {
		return []M{aStr(s), aArr(aStr(s)), aArr(aStr("x"), aStr(s), aInt(1)), aObj("k", aStr(s)), aObj(s, aInt(1)),
			aObj(s, aStr(s), "zz", aStr(s)), aArr(aStr(s), aStr(s))}
	}
	strCase := func(s string, n int, src string) {
		cs := ctxs(s)
		for ci, t := range cs {
			if ci >= 5 && n%4 != 0 {
				continue
			}
			// htmlunsafe on and off for every string; the layout options rotate
			emit(t, sopts((n+ci)%8), []pcfg{pcfgOf((n + ci*3) % 32)}, src)
			emit(t, sopts(8+(n+ci+3)%8), nil, src)
		}
	}
	n := 0
	// (1) all strings of length <= 2: over all 256 bytes (thorough) / over the class representatives (quick)
	alpha := senReps
	if !quick {
		alpha = make([]byte, 256)
		for i := range alpha {
			alpha[i] = byte(i)
		}
	}
	strCase("", n, "len0")
	for b := 0; b < 256; b++ { // length 1 over all bytes in both tiers
		n++
		strCase(string([]byte{byte(b)}), n, "len1")
	}
	for _, a := range alpha {
		for _, b := range alpha {
			n++
			s := string([]byte{a, b})
			if quick || len(alpha) == 256 {
				// length 2: top level + element + value + key, one option set each (65 536 strings in the thorough tier)
				k := n % 8
				emit(aArr(aStr(s), aObj(s, aStr(s))), sopts(k), nil, "len2")
				emit(aStr(s), sopts(8+k), nil, "len2")
				if n%16 == 0 {
					emit(aObj("k", aStr(s)), sopts(k), []pcfg{pcfgOf(n % 32)}, "len2")
				}
			}
		}
	}
	// (2) length 3..4 over the representatives (sampled in the quick tier)
	reps := senReps
	for _, a := range reps {
		for _, b := range reps {
			for _, c := range reps {
				n++
				if quick && r.Intn(40) != 0 {
					continue
				}
				s := string([]byte{a, b, c})
				emit(aArr(aStr(s), aObj(s, aStr(s))), sopts(n%16), nil, "len3")
				if !quick && n%5 == 0 {
					d := reps[r.Intn(len(reps))]
					s4 := s + string([]byte{d})
					emit(aArr(aStr(s4), aObj(s4, aStr(s4))), sopts(n%16), nil, "len4")
				}
			}
		}
	}
	if quick {
		for k := 0; k < 1500; k++ {
			b := make([]byte, 4)
			for i := range b {
				b[i] = reps[r.Intn(len(reps))]
			}
			s := string(b)
			emit(aArr(aStr(s), aObj(s, aStr(s))), sopts(k%16), nil, "len4")
		}
	}
	// (3) reserved spellings and the strings the model predicts to be misread
	rs := append([]string{}, reserved...)
	if *pred != "" {
		f, err := os.Open(*pred)
		if err != nil {
			panic(err)
		}
		readLines(f, func(l []byte) {
			var p struct {
				S []int `json:"s"`
			}
			if json.Unmarshal(l, &p) == nil {
				b := make([]byte, len(p.S))
				for i, x := range p.S {
					b[i] = byte(x)
				}
				rs = append(rs, string(b))
			}
		})
	}
	for _, s := range rs {
		n++
		strCase(s, n, "reserved")
	}
	// a sign-led string followed by a quoted one: the reader takes "+" as string concatenation
	for k, t := range []M{aArr(aStr("+"), aStr("a b")), aArr(aInt(1), aStr("+"), aStr("a b")), aArr(aStr("x"), aStr("+"), aStr("a b")),
		aObj("a", aStr("x"), "b", aStr("+"), "c", aStr("a b")), aArr(aStr("+a"), aStr("")), aArr(aArr(), aStr("+"), aStr("a b"))} {
		emit(t, sopts(k), []pcfg{pcfgOf(k + 1)}, "plus")
	}
	// tables for the aligned layout of pretty.SEN / WriteSEN (quoted and bare keys mixed, missing columns)
	for i, tc := range tableCases(*tbl, quick) {
		emit(tc.tree, sopts(i%16), tc.p, "table")
	}
	// aligned tables with heterogeneous columns (array / map / scalar / empty / nested / missing cells in one column)
	for i, tc := range heteroCases(*het, quick) {
		emit(tc.tree, sopts(i%16), tc.p, "hetero")
	}
	// deep chains with siblings (sen writers with Indent, pretty.SEN beyond its indent table)
	for _, dc := range deepCases(quick) {
		o := dc.o
		o.Sort = true
		emit(dc.tree, o, dc.p, "deep")
	}
	// size classes of the fixed tables (key / value / column lengths around 64, 128, 256; Width 1..1000; Align on / off)
	for _, sc := range sizeCases(quick) {
		o := sc.o
		o.Sort = true
		emit(sc.tree, o, sc.p, "size")
	}
	// floats of every shape class (significant digits x decimal exponent x sign x pattern): top level, element, member value
	for i, f := range classFloats(*flc) {
		emit(aFlt(f), sopts(i%16), nil, "fclass")
		emit(aArr(aFlt(f), aInt(1), aFlt(f)), sopts((i+3)%16), []pcfg{pcfgOf(i % 32)}, "fclass")
		emit(aObj("k", aFlt(f), "z", aStr("s")), sopts((i+5)%16), nil, "fclass")
	}
	// (4) numbers
	for _, i := range append([]int64{0}, intLeaves...) {
		for ci, t := range []M{aInt(i), aArr(aInt(i), aInt(i)), aObj("k", aInt(i))} {
			emit(t, sopts(ci), []pcfg{pcfgOf(ci)}, "num")
		}
	}
	for _, f := range append(append([]float64{0, math.Copysign(0, -1)}, fltLeaves...), wholeFloats...) {
		for ci, t := range []M{aFlt(f), aArr(aFlt(f), aFlt(f)), aObj("k", aFlt(f))} {
			emit(t, sopts(ci), []pcfg{pcfgOf(ci + 16)}, "num")
		}
	}
	emit(aArr(aNull(), aBool(true), aBool(false), aArr(), aObj(), aStr("")), sopts(0), []pcfg{pcfgOf(2)}, "num")
	// (5) TLC shapes: nesting, empty containers, mixed leaves, under the layout options
	if *shp != "" {
		f, err := os.Open(*shp)
		if err != nil {
			panic(err)
		}
		i := 0
		readLines(f, func(l []byte) {
			var s shape
			if err := json.Unmarshal(l, &s); err != nil {
				panic(err)
			}
			i++
			fl := &filler{r: r, ks: keyUniverse[r.Intn(len(keyUniverse))]}
			t := fl.fill(s)
			if hasNilArr(t) {
				return
			}
			emit(t, sopts((i+int(seed()))%16), []pcfg{pcfgOf((i * 7) % 32)}, "shape")
		})
	}
	for _, d := range []int{1, 2, 15, 31, 65, 129, 140} {
		var t M = aStr("true")
		for k := 0; k < d; k++ {
			if k%2 == 0 {
				t = aArr(t)
			} else {
				t = aObj("-k", t)
			}
		}
		emit(t, sopts(d%4), []pcfg{pcfgOf(d % 32)}, "nest")
	}
	w := bufio.NewWriterSize(os.Stdout, 1<<20)
	cnt := len(all)
	stride := 7919
	for cnt%stride == 0 {
		stride += 2
	}
	for i := 0; i < cnt; i++ {
		w.Write(all[(i*stride)%cnt])
	}
	w.Flush()
}

func hasNilArr(t M) bool {
	switch t["t"] {
	case "narr":
		return true
	case "arr", "obj":
		for _, e := range t["v"].([]any) {
			if hasNilArr(e.(M)) {
				return true
			}
		}
	}
	return false
}
