// Command parsers turns model states into inputs and runs the real JSON front-ends on them.
//
//	parsers cover  -states st.ndjson [-bom] [-nl]      > cases.ndjson   (TLC transition cover -> inputs)
//	parsers random -n N                                 > cases.ndjson   (grammar-aware generator + mutations)
//	parsers harvest -repo /repo                         > cases.ndjson   (JSON-looking literals of the test suite)
//	parsers exec   -set c01|c09|c09m|c03                    < cases.ndjson > trace.ndjson
//	parsers probe                                       < probes.ndjson > result.ndjson  (completion probing)
package main

import (
	"bufio"
	"encoding/json"
	"flag"
	"fmt"
	"math/rand"
	"os"
	"path/filepath"
	"regexp"
	"runtime"
	"sort"
	"strconv"
	"strings"
	"sync"
	"time"

	ojgen "github.com/ohler55/ojg/gen"

	"verif/harness/absval"
	"verif/harness/plib"
)

type state struct {
	Pc    string `json:"pc"`
	Top   string `json:"top"`
	Depth int    `json:"depth"`
	Sk    string `json:"sk"`
	Key   string `json:"key"`
	W     []int  `json:"w"`
	C     []int  `json:"c"`
	Cl    []int  `json:"cl"`
}

// front-end sets. C01 names exactly these five (whole-buffer calls).
var setC01 = [][2]string{{"oj.Parse", ""}, {"oj.ParseReader", "whole"}, {"oj.Validate1", ""}, {"oj.Tokenize1", ""}, {"gen.Parse", ""},
	{"oj.Unmarshal", ""}, {"oj.ParseString", ""}, {"oj.Parse+ncm", ""}, {"oj.Parser.Parse+ncm", ""}}

// C09 adds the chunked reader variants: position must not depend on chunking.
var setC09 = [][2]string{{"oj.Parse", ""}, {"oj.ParseReader", "whole"}, {"oj.Validate1", ""}, {"oj.Tokenize1", ""}, {"gen.Parse", ""},
	{"oj.Unmarshal", ""}, {"oj.Parser.Unmarshal", ""}, {"oj.ParseString", ""},
	{"oj.ParseReader", "1"}, {"oj.ParseReader", "3"}, {"oj.ValidateReader1", "whole"}, {"oj.ValidateReader1", "1"}, {"oj.ValidateReader1", "3"},
	{"oj.TokenizeLoad1", "whole"}, {"oj.TokenizeLoad1", "1"}, {"oj.TokenizeLoad1", "3"}, {"gen.ParseReader", "whole"}, {"gen.ParseReader", "1"}, {"gen.ParseReader", "3"},
	// readers that hand over their last bytes together with io.EOF (iotest.DataErrReader) and that return half of what is asked for
	{"oj.ParseReader", "dataerr"}, {"oj.ValidateReader1", "dataerr"}, {"oj.TokenizeLoad1", "dataerr"}, {"gen.ParseReader", "dataerr"},
	{"oj.ParseReader", "half"}, {"oj.ValidateReader1", "half"}, {"oj.TokenizeLoad1", "half"}, {"gen.ParseReader", "half"},
	{"oj.ParseReader", "dataerr:1"}, {"oj.ValidateReader1", "dataerr:1"}, {"oj.TokenizeLoad1", "dataerr:1"}, {"gen.ParseReader", "dataerr:1"},
	// an option argument (number conversion method) must change neither the accepted language nor a position
	{"oj.Parse+ncm", ""}, {"oj.Parser.Parse+ncm", ""}, {"oj.ParseReader+ncm", "whole"}, {"oj.ParseReader+ncm", "1"}, {"oj.Load+ncm", "3"}}

// C09 on streams of documents (multi-document mode): callback and non-OnlyOne variants, whole and chunked.
var setC09m = [][2]string{{"oj.Parse+cb", ""}, {"gen.Parse+cb", ""}, {"oj.Validate", ""}, {"oj.Tokenize", ""},
	{"oj.ParseReader+cb", "whole"}, {"oj.ParseReader+cb", "1"}, {"oj.ParseReader+cb", "3"}, {"oj.ParseReader+cb", "dataerr:1"}, {"oj.Load+cb", "3"},
	{"gen.ParseReader+cb", "whole"}, {"gen.ParseReader+cb", "1"}, {"gen.ParseReader+cb", "3"}, {"gen.ParseReader+cb", "half"},
	{"oj.ValidateReader", "whole"}, {"oj.ValidateReader", "1"}, {"oj.ValidateReader", "3"},
	{"oj.TokenizeLoad", "whole"}, {"oj.TokenizeLoad", "1"}, {"oj.TokenizeLoad", "3"}, {"oj.TokenizeLoad", "dataerr"}}

type group struct {
	As []string `json:"as"`
	R  int      `json:"r"`
	L  int      `json:"l"`
	C  int      `json:"c"`
	PE bool     `json:"pe"`
	M  string   `json:"m,omitempty"`
	V  any      `json:"v,omitempty"`
}

// C02: values returned by whole-buffer (fast paths) and one-byte-chunked (byte-at-a-time paths) front-ends
var setC02 = [][2]string{{"oj.Parse", ""}, {"oj.ParseReader", "whole"}, {"oj.ParseReader", "1"}, {"oj.Tokenize1", ""},
	{"oj.TokenizeLoad1", "1"}, {"gen.Parse", ""}, {"gen.ParseReader", "1"},
	// the SEN front-ends read JSON too (the property's anchors name sen/parser.go and sen/tokenizer.go)
	{"sen.Parse", ""}, {"sen.ParseReader", "1"}, {"sen.Tokenize1", ""}, {"sen.TokenizeLoad1", "1"}}

var valOpt = absval.Opt{AlwaysDec: true, FloatMid: true}

func observeValues(in []byte, set [][2]string) []group {
	idx := map[string]int{}
	gs := []group{}
	for _, ac := range set {
		o := plib.Call(ac[0], ac[1], in, true)
		var v any
		key := fmt.Sprintf("%d", o.R)
		if o.R == 1 && depthOf(o.Value) > 60 {
			continue // TLC's JSON reader has a nesting limit of 255; such documents are judged for syntax only (C01)
		}
		if o.R == 1 {
			v = valOpt.Encode(o.Value)
			jb, _ := json.Marshal(v)
			key += string(jb)
		}
		if i, ok := idx[key]; ok {
			gs[i].As = append(gs[i].As, o.API)
		} else {
			idx[key] = len(gs)
			g := group{As: []string{o.API}, R: o.R, V: v}
			if o.R == 2 {
				g.M = o.Msg
			}
			gs = append(gs, g)
		}
	}
	return gs
}

func depthOf(v any) int {
	d := 0
	switch t := v.(type) {
	case []any:
		for _, e := range t {
			if x := depthOf(e); x > d {
				d = x
			}
		}
		return d + 1
	case map[string]any:
		for _, e := range t {
			if x := depthOf(e); x > d {
				d = x
			}
		}
		return d + 1
	case ojgen.Array:
		for _, e := range t {
			if x := depthOf(e); x > d {
				d = x
			}
		}
		return d + 1
	case ojgen.Object:
		for _, e := range t {
			if x := depthOf(e); x > d {
				d = x
			}
		}
		return d + 1
	}
	return 0
}

// wrap: literals emitted by TLC (JsonValueGen) -> documents in grammar contexts
func wrap(args []string) {
	fs := flag.NewFlagSet("wrap", flag.ExitOnError)
	all := fs.Bool("all", false, "every context for every literal (default: bare + one rotating context)")
	nctx := fs.Int("ctx", 1, "number of rotating contexts per literal")
	fs.Parse(args)
	out := bufio.NewWriterSize(os.Stdout, 1<<20)
	defer out.Flush()
	numCtx := []string{"L\n", " L ", "[L]", "[L,L]", "[ L ]", "{\"a\":L}", "{\"a\":L,\"b\":L }", "[[L],L\n]"}
	strCtx := []string{"[L]", "{L:L}", "{\"k\":L}", "{L:1,L:2}", "[L,L]", "{\"a\":{L:[L]}}", " L\n"}
	seen := map[string]bool{}
	n := 0
	readLines(os.Stdin, func(l []byte) {
		var lit struct {
			Kind string `json:"kind"`
			B    []int  `json:"b"`
		}
		if err := json.Unmarshal(l, &lit); err != nil {
			panic(err)
		}
		lb := string(plib.Bytes(lit.B))
		if seen[lb] {
			return
		}
		seen[lb] = true
		ctxs := numCtx
		if lit.Kind == "str" {
			ctxs = strCtx
		}
		emit := func(c string) {
			doc := strings.ReplaceAll(c, "L", lb)
			out.Write(plib.MarshalLine(plib.Case{B: plib.Ints([]byte(doc)), Src: lit.Kind + ":" + c}))
		}
		emit("L")
		if *all {
			for _, c := range ctxs {
				emit(c)
			}
		} else {
			for k := 0; k < *nctx; k++ {
				emit(ctxs[(n+k)%len(ctxs)])
			}
		}
		n++
	})
}

type traceLine struct {
	B   []int   `json:"b"`
	Pad int     `json:"pad"`
	Src string  `json:"src,omitempty"`
	O   []group `json:"o"`
}

func main() {
	if len(os.Args) < 2 {
		fmt.Fprintln(os.Stderr, "usage: parsers cover|random|harvest|exec|probe ...")
		os.Exit(2)
	}
	switch os.Args[1] {
	case "cover":
		cover(os.Args[2:])
	case "random":
		random(os.Args[2:])
	case "harvest":
		harvest(os.Args[2:])
	case "exec":
		execCases(os.Args[2:])
	case "probe":
		probe(os.Args[2:])
	case "wrap":
		wrap(os.Args[2:])
	case "align":
		align(os.Args[2:])
	default:
		fmt.Fprintln(os.Stderr, "unknown mode", os.Args[1])
		os.Exit(2)
	}
}

func readLines(f *os.File, fn func([]byte)) {
	sc := bufio.NewScanner(f)
	sc.Buffer(make([]byte, 1<<20), 1<<28)
	for sc.Scan() {
		if len(sc.Bytes()) > 0 {
			fn(append([]byte{}, sc.Bytes()...))
		}
	}
}

// ---------------------------------------------------------------- cover
func cover(args []string) {
	fs := flag.NewFlagSet("cover", flag.ExitOnError)
	stf := fs.String("states", "", "ndjson of model states with witness and completion")
	bom := fs.Bool("bom", false, "also emit every input with a BOM prefix")
	light := fs.Bool("light", false, "only completed inputs (w.c and w.b.c for class representatives): the accepted side, for value checks")
	nl := fs.Bool("nl", false, "also emit every input with leading newlines / a newline-rich prefix (C09)")
	fs.Parse(args)
	f, err := os.Open(*stf)
	if err != nil {
		panic(err)
	}
	// one witness per machine state (shortest), every (state, byte) transition, EOF included
	best := map[string]state{}
	readLines(f, func(l []byte) {
		var s state
		if err := json.Unmarshal(l, &s); err != nil {
			panic(err)
		}
		if s.Pc == "Err" || s.Pc == "Cut" {
			return
		}
		if b, ok := best[s.Key]; !ok || len(s.W) < len(b.W) {
			best[s.Key] = s
		}
	})
	keys := make([]string, 0, len(best))
	for k := range best {
		keys = append(keys, k)
	}
	sort.Strings(keys)
	out := bufio.NewWriterSize(os.Stdout, 1<<20)
	defer out.Flush()
	seen := map[string]bool{}
	emit := func(in []byte, src string) {
		if seen[string(in)] {
			return
		}
		seen[string(in)] = true
		out.Write(plib.MarshalLine(plib.Case{B: plib.Ints(in), Src: src}))
	}
	cat := func(a ...[]byte) []byte {
		var r []byte
		for _, x := range a {
			r = append(r, x...)
		}
		return r
	}
	for _, k := range keys {
		s := best[k]
		w, c := plib.Bytes(s.W), plib.Bytes(s.C)
		variants := [][]byte{w}
		if *bom && (len(w) == 0 || w[0] != 0xEF) {
			variants = append(variants, cat([]byte{0xEF, 0xBB, 0xBF}, w))
		}
		if *nl && (len(w) == 0 || w[0] != 0xEF) {
			variants = append(variants, cat([]byte("\n \n"), w))
		}
		if *light {
			emit(cat(w, c), "compl:"+s.Key)
			for _, x := range classReps {
				emit(cat(w, []byte{x}, c), "step+c:"+s.Key)
			}
			continue
		}
		for _, v := range variants {
			emit(v, "eof:"+s.Key)
			emit(cat(v, c), "compl:"+s.Key)
			for x := 0; x < 256; x++ {
				in := cat(v, []byte{byte(x)})
				emit(in, "step:"+s.Key)
				emit(cat(in, c), "step+c:"+s.Key)
			}
			// the same transitions embedded behind earlier tokens (a string, a number, a newline), so that registers left
			// behind by an earlier token (loop indexes, offsets, accumulators) are live when the transition is taken
			if len(v) == len(w) && (len(w) == 0 || w[0] != 0xEF) {
				for _, em := range embeddings {
					pre, post := []byte(em[0]), []byte(em[1])
					emit(cat(pre, w), "emb-eof:"+s.Key)
					emit(cat(pre, w, c, post), "emb-compl:"+s.Key)
					for _, x := range classReps {
						in := cat(pre, w, []byte{x})
						emit(in, "emb-step:"+s.Key)
						emit(cat(in, c, post), "emb-step+c:"+s.Key)
					}
				}
			}
			// continuations "as if the byte had been accepted into some other grammar position": a wrong table
			// cell typically shows only when a plausible rest of the document follows (DESIGN 6/C06)
			cl := plib.Bytes(s.Cl)
			for _, x := range classReps {
				in := cat(v, []byte{x})
				for _, mid := range confusions {
					emit(cat(in, []byte(mid), cl), "step+conf:"+s.Key)
				}
			}
		}
	}
}

var classReps = []byte(" \n{}[],:\"\\/bfnrtualseE01-+.x\x01\x7f\x80cA")
var embeddings = [][2]string{{"[\"abcd\",\n ", "]"}, {"{\"kkkk\":\"ab\\ncd\",\"x\":[12.5e3,\n", "]}"}, {"[\"\\u0041\\ud83d\\ude00\",true,-0.5E-2 ,", "]"}}
var confusions = []string{"0", "1]", "1}", "\"\":0", ":0", "\"", "\":0", ",0", ",\"\":0", "ull", "rue", "alse", ".5", "e1", "5"}

// ---------------------------------------------------------------- align
// Refill-aligned variants of the transition cover: the reader front-ends read through a 4096-byte buffer, so a byte (or the
// three BOM bytes) is placed on, just before and just after a refill boundary by leading spaces. Leading white space does
// not change the machine state (TraceJson assumes and TLC checks Step(Top, ' ') = Top), so the case is stored as (pad, b).
func align(args []string) {
	fs := flag.NewFlagSet("align", flag.ExitOnError)
	stf := fs.String("states", "", "ndjson of model states with witness and completion")
	per := fs.Int("per", 6, "byte classes sampled per state (plus BOM and end of input)")
	fs.Parse(args)
	f, err := os.Open(*stf)
	if err != nil {
		panic(err)
	}
	best := map[string]state{}
	readLines(f, func(l []byte) {
		var s state
		if err := json.Unmarshal(l, &s); err != nil {
			panic(err)
		}
		if s.Pc == "Err" || s.Pc == "Cut" || s.Pc == "Start" || s.Pc == "Bom1" || s.Pc == "Bom2" {
			return
		}
		if b, ok := best[s.Key]; !ok || len(s.W) < len(b.W) {
			best[s.Key] = s
		}
	})
	keys := make([]string, 0, len(best))
	for k := range best {
		keys = append(keys, k)
	}
	sort.Strings(keys)
	out := bufio.NewWriterSize(os.Stdout, 1<<20)
	defer out.Flush()
	r := rand.New(rand.NewSource(seed()))
	bounds := []int{4096, 4096, 4096, 8192}
	emit := func(w, x, c []byte, at int, src string) {
		// the first byte of x lands on absolute offset `at`
		pad := at - len(w)
		if pad <= 0 || (0 < len(w) && w[0] == 0xEF) {
			return
		}
		in := append(append([]byte{}, w...), x...)
		out.Write(plib.MarshalLine(plib.Case{B: plib.Ints(in), Pad: pad, Src: src}))
		out.Write(plib.MarshalLine(plib.Case{B: plib.Ints(append(in, c...)), Pad: pad, Src: src + "+c"}))
	}
	bomb := []byte{0xEF, 0xBB, 0xBF}
	for _, k := range keys {
		s := best[k]
		w, c := plib.Bytes(s.W), plib.Bytes(s.C)
		// a BOM in the middle of the input is never white space: on the boundary and straddling it
		for d := 0; d < 3; d++ {
			emit(w, bomb, c, 4096-d, "align-bom:"+s.Key)
		}
		emit(w, bomb, c, 8192, "align-bom:"+s.Key)
		// end of input exactly at the boundary, and the completion starting on it
		emit(w, nil, c, 4096, "align-eof:"+s.Key)
		for j := 0; j < *per; j++ {
			x := classReps[r.Intn(len(classReps))]
			b := bounds[r.Intn(len(bounds))]
			emit(w, []byte{x}, c, b-r.Intn(2), "align-step:"+s.Key)
		}
	}
}

// ---------------------------------------------------------------- random
type gen struct {
	r *rand.Rand
}

func (g *gen) ws(sb *strings.Builder) {
	for g.r.Intn(4) == 0 {
		sb.WriteByte(" \n\t\r"[g.r.Intn(4)])
	}
}

func (g *gen) str(sb *strings.Builder) {
	sb.WriteByte('"')
	n := g.r.Intn(6)
	if g.r.Intn(20) == 0 {
		n = g.r.Intn(200)
	}
	for i := 0; i < n; i++ {
		switch g.r.Intn(8) {
		case 0:
			sb.WriteByte('\\')
			sb.WriteByte("\"\\/bfnrt"[g.r.Intn(8)])
		case 1:
			fmt.Fprintf(sb, "\\u%04x", g.r.Intn(0x10000))
		case 2:
			sb.WriteByte(byte(0x80 + g.r.Intn(0x80)))
		default:
			c := byte(0x20 + g.r.Intn(0x5f))
			if c == '"' || c == '\\' {
				c = 'a'
			}
			sb.WriteByte(c)
		}
	}
	sb.WriteByte('"')
}

func (g *gen) digits(sb *strings.Builder, max int) {
	n := 1 + g.r.Intn(max)
	for i := 0; i < n; i++ {
		sb.WriteByte(byte('0' + g.r.Intn(10)))
	}
}

func (g *gen) num(sb *strings.Builder) {
	if g.r.Intn(3) == 0 {
		sb.WriteByte('-')
	}
	if g.r.Intn(4) == 0 {
		sb.WriteByte('0')
	} else {
		sb.WriteByte(byte('1' + g.r.Intn(9)))
		if g.r.Intn(2) == 0 {
			max := 6
			if g.r.Intn(6) == 0 {
				max = 40
			}
			g.digits(sb, max)
		}
	}
	if g.r.Intn(3) == 0 {
		sb.WriteByte('.')
		max := 5
		if g.r.Intn(6) == 0 {
			max = 30
		}
		g.digits(sb, max)
	}
	if g.r.Intn(4) == 0 {
		sb.WriteByte("eE"[g.r.Intn(2)])
		if g.r.Intn(2) == 0 {
			sb.WriteByte("+-"[g.r.Intn(2)])
		}
		g.digits(sb, 3)
	}
}

func (g *gen) value(sb *strings.Builder, depth int) {
	k := g.r.Intn(10)
	if depth <= 0 && k >= 6 {
		k = g.r.Intn(6)
	}
	switch k {
	case 0:
		sb.WriteString("null")
	case 1:
		sb.WriteString("true")
	case 2:
		sb.WriteString("false")
	case 3, 4:
		g.num(sb)
	case 5:
		g.str(sb)
	case 6, 7:
		sb.WriteByte('[')
		n := g.r.Intn(4)
		for i := 0; i < n; i++ {
			if i > 0 {
				sb.WriteByte(',')
			}
			g.ws(sb)
			g.value(sb, depth-1)
			g.ws(sb)
		}
		if n == 0 {
			g.ws(sb)
		}
		sb.WriteByte(']')
	default:
		sb.WriteByte('{')
		n := g.r.Intn(4)
		for i := 0; i < n; i++ {
			if i > 0 {
				sb.WriteByte(',')
			}
			g.ws(sb)
			g.str(sb)
			g.ws(sb)
			sb.WriteByte(':')
			g.ws(sb)
			g.value(sb, depth-1)
			g.ws(sb)
		}
		if n == 0 {
			g.ws(sb)
		}
		sb.WriteByte('}')
	}
}

var structural = []byte(",:\"]}[{-+.0 1eEntf\\/u\n")

func (g *gen) mutate(b []byte) []byte {
	if len(b) == 0 {
		return []byte{structural[g.r.Intn(len(structural))]}
	}
	b = append([]byte{}, b...)
	i := g.r.Intn(len(b))
	switch g.r.Intn(5) {
	case 0: // delete
		return append(b[:i], b[i+1:]...)
	case 1: // insert structural
		return append(b[:i], append([]byte{structural[g.r.Intn(len(structural))]}, b[i:]...)...)
	case 2: // replace structural
		b[i] = structural[g.r.Intn(len(structural))]
	case 3: // replace arbitrary
		b[i] = byte(g.r.Intn(256))
	default: // truncate
		return b[:i]
	}
	return b
}

func seed() int64 {
	s, _ := strconv.ParseInt(os.Getenv("VERIF_SEED"), 10, 64)
	if s == 0 {
		s = 1
	}
	return s
}

func random(args []string) {
	fs := flag.NewFlagSet("random", flag.ExitOnError)
	n := fs.Int("n", 1000, "number of documents")
	deep := fs.Int("deep", 0, "additionally this many deep/long documents")
	fs.Parse(args)
	g := &gen{r: rand.New(rand.NewSource(seed()))}
	out := bufio.NewWriterSize(os.Stdout, 1<<20)
	defer out.Flush()
	for i := 0; i < *n; i++ {
		var sb strings.Builder
		g.ws(&sb)
		g.value(&sb, 1+g.r.Intn(4))
		g.ws(&sb)
		b := []byte(sb.String())
		out.Write(plib.MarshalLine(plib.Case{B: plib.Ints(b), Src: "rand"}))
		m := b
		for k := 0; k < 1+g.r.Intn(3); k++ {
			m = g.mutate(m)
			out.Write(plib.MarshalLine(plib.Case{B: plib.Ints(m), Src: "rand-mut"}))
		}
	}
	for i := 0; i < *deep; i++ {
		var sb strings.Builder
		d := 10 + g.r.Intn(190)
		opens := make([]byte, 0, d)
		for k := 0; k < d; k++ {
			if g.r.Intn(2) == 0 {
				sb.WriteByte('[')
				opens = append(opens, ']')
			} else {
				sb.WriteString("{\"k\":")
				opens = append(opens, '}')
			}
		}
		g.value(&sb, 2)
		for k := len(opens) - 1; k >= 0; k-- {
			sb.WriteByte(opens[k])
		}
		b := []byte(sb.String())
		out.Write(plib.MarshalLine(plib.Case{B: plib.Ints(b), Src: "deep"}))
		out.Write(plib.MarshalLine(plib.Case{B: plib.Ints(g.mutate(b)), Src: "deep-mut"}))
	}
}

// ---------------------------------------------------------------- harvest
var strLit = regexp.MustCompile("`[^`]*`|\"(?:[^\"\\\\\n]|\\\\.)*\"")

func harvest(args []string) {
	fs := flag.NewFlagSet("harvest", flag.ExitOnError)
	repo := fs.String("repo", "/repo", "repository root")
	max := fs.Int("max", 400, "maximum literal length")
	fs.Parse(args)
	seen := map[string]bool{}
	out := bufio.NewWriterSize(os.Stdout, 1<<20)
	defer out.Flush()
	filepath.Walk(*repo, func(p string, info os.FileInfo, err error) error {
		if err != nil || info.IsDir() || !strings.HasSuffix(p, "_test.go") {
			return nil
		}
		src, _ := os.ReadFile(p)
		for _, m := range strLit.FindAll(src, -1) {
			var s string
			if m[0] == '`' {
				s = string(m[1 : len(m)-1])
			} else {
				var err error
				if s, err = strconv.Unquote(string(m)); err != nil {
					continue
				}
			}
			t := strings.TrimSpace(s)
			if len(t) == 0 || len(s) > *max || seen[s] {
				continue
			}
			if !strings.ContainsAny(t[:1], "[{\"-0123456789ntf") {
				continue
			}
			seen[s] = true
			out.Write(plib.MarshalLine(plib.Case{B: plib.Ints([]byte(s)), Src: "harvest"}))
		}
		return nil
	})
}

// ---------------------------------------------------------------- exec
func observe(in []byte, set [][2]string) []group {
	idx := map[string]int{}
	var gs []group
	for _, ac := range set {
		o := plib.Call(ac[0], ac[1], in, false)
		m := ""
		if o.R == 2 {
			m = o.Msg
		}
		key := fmt.Sprintf("%d/%d/%d/%v/%s", o.R, o.Line, o.Col, o.PE, m)
		if i, ok := idx[key]; ok {
			gs[i].As = append(gs[i].As, o.API)
		} else {
			idx[key] = len(gs)
			gs = append(gs, group{As: []string{o.API}, R: o.R, L: o.Line, C: o.Col, PE: o.PE, M: m})
		}
	}
	return gs
}

func execCases(args []string) {
	fs := flag.NewFlagSet("exec", flag.ExitOnError)
	setName := fs.String("set", "c01", "front-end set")
	fs.Parse(args)
	set := setC01
	if *setName == "c09" {
		set = setC09
	} else if *setName == "c09m" {
		set = setC09m
	}
	var cases []plib.Case
	readLines(os.Stdin, func(l []byte) {
		var c plib.Case
		if err := json.Unmarshal(l, &c); err != nil {
			panic(err)
		}
		cases = append(cases, c)
	})
	res := make([][]byte, len(cases))
	var wg sync.WaitGroup
	nw := runtime.NumCPU()
	var cur int64 = -1
	var mu sync.Mutex
	next := func() int {
		mu.Lock()
		defer mu.Unlock()
		cur++
		return int(cur)
	}
	inflight := make([]int64, nw) // start time (unix nano) of the case a worker is on
	inflightCase := make([]int, nw)
	for w := 0; w < nw; w++ {
		wg.Add(1)
		go func(w int) {
			defer wg.Done()
			for {
				i := next()
				if i >= len(cases) {
					mu.Lock()
					inflight[w] = 0
					mu.Unlock()
					return
				}
				mu.Lock()
				inflight[w] = time.Now().UnixNano()
				inflightCase[w] = i
				mu.Unlock()
				in := cases[i].Input()
				if *setName == "c02" {
					res[i] = plib.MarshalLine(traceLine{B: cases[i].B, Pad: cases[i].Pad, Src: cases[i].Src, O: observeValues(in, setC02)})
				} else if *setName == "c09m" {
					res[i] = plib.MarshalLine(traceLine{B: cases[i].B, Pad: cases[i].Pad, Src: cases[i].Src, O: observe(in, setC09m)})
				} else if 0 < cases[i].Pad || (0 < len(in) && in[0] == 0xEF && *setName == "c01") {
					// refill-aligned inputs and inputs that start like a BOM (which a reader may deliver in pieces): the
					// reader variants are the point
					res[i] = plib.MarshalLine(traceLine{B: cases[i].B, Pad: cases[i].Pad, Src: cases[i].Src, O: observe(in, setC09)})
				} else {
					res[i] = plib.MarshalLine(traceLine{B: cases[i].B, Src: cases[i].Src, O: observe(in, set)})
				}
			}
		}(w)
	}
	// watchdog: a call that does not come back within 20 s is a hang (C06); report the case and stop
	done := make(chan struct{})
	go func() { wg.Wait(); close(done) }()
	tick := time.NewTicker(time.Second)
loop:
	for {
		select {
		case <-done:
			break loop
		case <-tick.C:
			mu.Lock()
			for w := range inflight {
				if inflight[w] != 0 && time.Now().UnixNano()-inflight[w] > int64(20*time.Second) {
					fmt.Fprintf(os.Stderr, "HANG %s\n", plib.MarshalLine(cases[inflightCase[w]]))
					os.Exit(3)
				}
			}
			mu.Unlock()
		}
	}
	out := bufio.NewWriterSize(os.Stdout, 1<<20)
	for _, l := range res {
		out.Write(l)
	}
	out.Flush()
}

// ---------------------------------------------------------------- probe
// input: {"id":n, "api":"oj.Parse", "probes":[[bytes],...]}; output {"id":n,"k":first rejected probe (1-based) or 0}
func probe(args []string) {
	out := bufio.NewWriterSize(os.Stdout, 1<<20)
	defer out.Flush()
	readLines(os.Stdin, func(l []byte) {
		var p struct {
			ID     int     `json:"id"`
			API    string  `json:"api"`
			Probes [][]int `json:"probes"`
			Pad    int     `json:"pad"`
		}
		if err := json.Unmarshal(l, &p); err != nil {
			panic(err)
		}
		api, chunk := p.API, ""
		if i := strings.Index(api, "@"); i >= 0 {
			api, chunk = p.API[:i], p.API[i+1:]
		} else if strings.Contains(api, "Reader") || strings.Contains(api, "Load") {
			chunk = "whole"
		}
		k := 0
		for i, pr := range p.Probes {
			o := plib.Call(api, chunk, plib.Case{B: pr, Pad: p.Pad}.Input(), false)
			if o.R != 1 {
				k = i + 1
				break
			}
		}
		out.Write(plib.MarshalLine(map[string]int{"id": p.ID, "k": k}))
	})
}
