// Command xproc is the driver of the extension check XPROC (the programmatic side of JSONPath):
//
//	xproc expand -v N     stdin: derivation shapes printed by ExprBuildGen ({"sh":[receiver,...]})
//	                      stdout: build cases, every shape decorated N times with builder calls (seeded)
//	xproc exec            stdin: cases (ndjson), stdout: one trace line per case (what the real code did)
//
// Case kinds: "build" (a history of builder calls on a heap of jp.Expr values), "proc" (a path with
// Proc fragments evaluated on a document), "fn" (a user registered function in a filter), "form"
// (Script.Inspect of an equation).  The driver only drives and records; every verdict is TLC's
// (spec/TraceExprBuild.tla, spec/TraceProcEval.tla).
package main

import (
	"bufio"
	"encoding/json"
	"flag"
	"fmt"
	"math/rand"
	"os"
	"sort"
	"strconv"

	"github.com/ohler55/ojg/gen"
	"github.com/ohler55/ojg/jp"
)

type M = map[string]any

// ---------------------------------------------------------------------------------------------
// projection of values: the kind is the field name ({"z":0} null, {"b":true}, {"i":3}, {"s":"x"},
// {"a":[..]}, {"o":[keys sorted],"v":[..]}, {"no":0} jp.Nothing, {"x":"<type>"} anything else)

func proj(v any) any {
	switch tv := v.(type) {
	case nil:
		return M{"z": 0}
	case bool:
		return M{"b": tv}
	case gen.Bool:
		return M{"b": bool(tv)}
	case int:
		return M{"i": tv}
	case int64:
		return M{"i": tv}
	case gen.Int:
		return M{"i": int64(tv)}
	case float64:
		if tv == float64(int64(tv)) {
			return M{"i": int64(tv)}
		}
		return M{"x": "float"}
	case string:
		return M{"s": tv}
	case gen.String:
		return M{"s": string(tv)}
	case []any:
		out := make([]any, 0, len(tv))
		for _, e := range tv {
			out = append(out, proj(e))
		}
		return M{"a": out}
	case gen.Array:
		out := make([]any, 0, len(tv))
		for _, e := range tv {
			out = append(out, proj(e))
		}
		return M{"a": out}
	case *idxList:
		out := make([]any, 0, len(tv.v))
		for _, e := range tv.v {
			out = append(out, proj(e))
		}
		return M{"a": out}
	case map[string]any:
		keys := make([]string, 0, len(tv))
		for k := range tv {
			keys = append(keys, k)
		}
		sort.Strings(keys)
		vals := make([]any, 0, len(keys))
		for _, k := range keys {
			vals = append(vals, proj(tv[k]))
		}
		return M{"o": strs(keys), "v": vals}
	case gen.Object:
		keys := make([]string, 0, len(tv))
		for k := range tv {
			keys = append(keys, k)
		}
		sort.Strings(keys)
		vals := make([]any, 0, len(keys))
		for _, k := range keys {
			vals = append(vals, proj(tv[k]))
		}
		return M{"o": strs(keys), "v": vals}
	case *ordKeyed:
		keys := append([]string{}, tv.k...)
		sort.Strings(keys)
		vals := make([]any, 0, len(keys))
		for _, k := range keys {
			x, _ := tv.ValueForKey(k)
			vals = append(vals, proj(x))
		}
		return M{"o": strs(keys), "v": vals}
	}
	if v == jp.Nothing {
		return M{"no": 0}
	}
	return M{"x": fmt.Sprintf("%T", v)}
}

func strs(s []string) []any {
	out := make([]any, 0, len(s))
	for _, x := range s {
		out = append(out, x)
	}
	return out
}

func projList(vs []any) []any {
	out := make([]any, 0, len(vs))
	for _, v := range vs {
		out = append(out, proj(v))
	}
	return out
}

// the inverse: an abstract value in one of the representations
type ordKeyed struct {
	k []string
	v map[string]any
}

func (o *ordKeyed) ValueForKey(key string) (any, bool) { v, ok := o.v[key]; return v, ok }
func (o *ordKeyed) SetValueForKey(key string, value any) {
	if _, ok := o.v[key]; !ok {
		o.k = append(o.k, key)
	}
	o.v[key] = value
}
func (o *ordKeyed) RemoveValueForKey(key string) {
	if _, ok := o.v[key]; ok {
		delete(o.v, key)
		for i, k := range o.k {
			if k == key {
				o.k = append(o.k[:i:i], o.k[i+1:]...)
				break
			}
		}
	}
}
func (o *ordKeyed) Keys() []string { return append([]string{}, o.k...) }

type idxList struct{ v []any }

func (l *idxList) ValueAtIndex(i int) any {
	if i < 0 || len(l.v) <= i {
		return nil
	}
	return l.v[i]
}
func (l *idxList) SetValueAtIndex(i int, value any) {
	if 0 <= i && i < len(l.v) {
		l.v[i] = value
	}
}
func (l *idxList) Size() int { return len(l.v) }

func build(a any, rep string) any {
	m := a.(map[string]any)
	if _, ok := m["z"]; ok {
		return nil
	}
	if b, ok := m["b"]; ok {
		if rep == "gen" {
			return gen.Bool(b.(bool))
		}
		return b
	}
	if i, ok := m["i"]; ok {
		if rep == "gen" {
			return gen.Int(int64(i.(float64)))
		}
		return int(i.(float64))
	}
	if s, ok := m["s"]; ok {
		if rep == "gen" {
			return gen.String(s.(string))
		}
		return s
	}
	if l, ok := m["a"]; ok {
		list := l.([]any)
		switch rep {
		case "gen":
			out := make(gen.Array, 0, len(list))
			for _, e := range list {
				n, _ := build(e, rep).(gen.Node)
				out = append(out, n)
			}
			return out
		case "iface":
			out := make([]any, 0, len(list))
			for _, e := range list {
				out = append(out, build(e, rep))
			}
			return &idxList{v: out}
		}
		out := make([]any, 0, len(list))
		for _, e := range list {
			out = append(out, build(e, rep))
		}
		return out
	}
	if ks, ok := m["o"]; ok {
		keys := ks.([]any)
		vals := m["v"].([]any)
		switch rep {
		case "gen":
			out := gen.Object{}
			for i, k := range keys {
				n, _ := build(vals[i], rep).(gen.Node)
				out[k.(string)] = n
			}
			return out
		case "iface":
			out := &ordKeyed{v: map[string]any{}}
			for i, k := range keys {
				out.SetValueForKey(k.(string), build(vals[i], rep))
			}
			return out
		}
		out := map[string]any{}
		for i, k := range keys {
			out[k.(string)] = build(vals[i], rep)
		}
		return out
	}
	panic(fmt.Sprintf("xproc: unknown abstract value %v", a))
}

// ---------------------------------------------------------------------------------------------
// fragments: {"f": kind, "a": [[ints]...]}

func bytesOf(s string) []any {
	out := make([]any, 0, len(s))
	for _, b := range []byte(s) {
		out = append(out, int(b))
	}
	return out
}

func strOf(l any) string {
	list, _ := l.([]any)
	buf := make([]byte, 0, len(list))
	for _, x := range list {
		buf = append(buf, byte(x.(float64)))
	}
	return string(buf)
}

func intsOf(l any) []int {
	list, _ := l.([]any)
	out := make([]int, 0, len(list))
	for _, x := range list {
		out = append(out, int(x.(float64)))
	}
	return out
}

func frag(kind string, args ...any) M {
	if args == nil {
		args = []any{}
	}
	return M{"f": kind, "a": args}
}

// the equations a Filter call can carry (the spec only knows their index)
var eqCat = []func() *jp.Equation{
	func() *jp.Equation { return jp.Eq(jp.Get(jp.A().C("a")), jp.ConstInt(1)) },
	func() *jp.Equation { return jp.Lt(jp.Get(jp.A().C("a")), jp.ConstInt(2)) },
	func() *jp.Equation { return jp.Has(jp.Get(jp.A().C("b")), jp.ConstBool(true)) },
}

func eqID(f *jp.Filter) int {
	s := f.String()
	for i, mk := range eqCat {
		if mk().Filter().String() == s {
			return i
		}
	}
	return -1
}

func projFrag(f jp.Frag) M {
	switch tf := f.(type) {
	case nil:
		return frag("nil")
	case jp.Root:
		return frag("root")
	case jp.At:
		return frag("at")
	case jp.Bracket:
		return frag("bracket")
	case jp.Descent:
		return frag("descent")
	case jp.Wildcard:
		return frag("wild")
	case jp.Child:
		return frag("child", bytesOf(string(tf)))
	case jp.Nth:
		return frag("nth", []any{int(tf)})
	case jp.Slice:
		ints := make([]any, 0, len(tf))
		for _, n := range tf {
			ints = append(ints, n)
		}
		return frag("slice", ints)
	case jp.Union:
		ms := make([]any, 0, len(tf))
		for _, m := range tf {
			switch tm := m.(type) {
			case string:
				ms = append(ms, append([]any{1}, bytesOf(tm)...))
			case int64:
				ms = append(ms, []any{0, tm})
			case int:
				ms = append(ms, []any{0, tm})
			default:
				ms = append(ms, []any{2})
			}
		}
		return frag("union", ms...)
	case *jp.Filter:
		return frag("filter", []any{eqID(tf)})
	case *jp.Proc:
		return frag("proc", bytesOf(string(tf.Script)))
	}
	return frag("other")
}

func projExpr(x jp.Expr) []any {
	out := make([]any, 0, len(x))
	for _, f := range x {
		out = append(out, projFrag(f))
	}
	return out
}

// ---------------------------------------------------------------------------------------------
// build cases

type call struct {
	R  int    `json:"r"`
	M  string `json:"m"`
	A  []any  `json:"a"`
	Ch []call `json:"ch"`
}

func unionArgs(a []any) []any {
	keys := make([]any, 0, len(a))
	for i, m := range a {
		ints := intsOf(m)
		if ints[0] == 0 {
			if i%2 == 0 {
				keys = append(keys, ints[1])
			} else {
				keys = append(keys, int64(ints[1])) // both documented member types
			}
		} else {
			keys = append(keys, strOf(m.([]any)[1:]))
		}
	}
	return keys
}

// apply makes one builder call: on the package (recv == nil) or as a method of *recv.
func apply(recv *jp.Expr, c call) jp.Expr {
	var ints []int
	if 0 < len(c.A) {
		ints = intsOf(c.A[0])
	}
	if recv == nil {
		switch c.M {
		case "X":
			return jp.X()
		case "A":
			return jp.A()
		case "B":
			return jp.B()
		case "C":
			return jp.C(strOf(c.A[0]))
		case "D":
			return jp.D()
		case "F":
			return jp.F(eqCat[ints[0]]())
		case "N":
			return jp.N(ints[0])
		case "R":
			return jp.R()
		case "S":
			return jp.S(ints[0], ints[1:]...)
		case "U":
			return jp.U(unionArgs(c.A)...)
		case "W":
			return jp.W()
		case "Parse":
			var x jp.Expr
			for i, cc := range c.Ch {
				if i == 0 {
					x = apply(nil, cc)
				} else {
					x = apply(&x, cc)
				}
			}
			return jp.MustParseString(x.String())
		}
		panic("xproc: unknown constructor " + c.M)
	}
	x := *recv
	switch c.M {
	case "A":
		return x.A()
	case "At":
		return x.At()
	case "B":
		return x.B()
	case "C":
		return x.C(strOf(c.A[0]))
	case "Child":
		return x.Child(strOf(c.A[0]))
	case "D":
		return x.D()
	case "Descent":
		return x.Descent()
	case "F":
		return x.F(eqCat[ints[0]]())
	case "Filter":
		return x.Filter(eqCat[ints[0]]())
	case "N":
		return x.N(ints[0])
	case "Nth":
		return x.Nth(ints[0])
	case "R":
		return x.R()
	case "Root":
		return x.Root()
	case "S":
		return x.S(ints[0], ints[1:]...)
	case "Slice":
		return x.Slice(ints[0], ints[1:]...)
	case "U":
		return x.U(unionArgs(c.A)...)
	case "Union":
		return x.Union(unionArgs(c.A)...)
	case "W":
		return x.W()
	case "Wildcard":
		return x.Wildcard()
	}
	panic("xproc: unknown method " + c.M)
}

var evalDoc = func() any {
	var v any
	_ = json.Unmarshal([]byte(`{"a":[{"a":1,"b":[1,2,3]},{"a":2,"b":[4]},[5,6,7]],"b":{"a":1,"b":"x"}}`), &v)
	return v
}()

func canon(vs []any) []any {
	out := make([]any, 0, len(vs))
	for _, v := range vs {
		b, _ := json.Marshal(v)
		out = append(out, string(b))
	}
	return out
}

func guard(f func()) (panicked bool, msg string) {
	defer func() {
		if r := recover(); r != nil {
			panicked = true
			msg = fmt.Sprint(r)
		}
	}()
	f()
	return
}

func execBuild(c M) M {
	var steps []call
	raw, _ := json.Marshal(c["steps"])
	if err := json.Unmarshal(raw, &steps); err != nil {
		panic(err)
	}
	handles := []jp.Expr{}
	hist := make([]any, 0, len(steps))
	for _, st := range steps {
		ev := M{"r": st.R, "m": st.M, "a": st.A, "ch": chainJSON(st.Ch)}
		var nx jp.Expr
		p, msg := guard(func() {
			if st.R == 0 {
				nx = apply(nil, st)
			} else {
				nx = apply(&handles[st.R-1], st)
			}
		})
		if p {
			ev["panic"] = msg
			ev["obs"] = []any{}
			ev["nw"] = M{"panic": true}
			hist = append(hist, ev)
			break
		}
		handles = append(handles, nx)
		obs := make([]any, 0, len(handles))
		for _, h := range handles {
			obs = append(obs, M{"fr": projExpr(h), "s": bytesOf(h.String())})
		}
		ev["obs"] = obs
		nw := M{"panic": false}
		p, msg = guard(func() {
			s := nx.String()
			nw["normal"] = nx.Normal()
			nw["ap"] = bytesOf(string(nx.Append([]byte("xy"))))
			nw["bs"] = bytesOf(nx.BracketString())
			px, err := jp.ParseString(s)
			nw["perr"] = err != nil
			nw["pfr"] = projExpr(px)
			nw["ps"] = bytesOf(px.String())
			bx, berr := jp.ParseString(nx.BracketString())
			nw["bperr"] = berr != nil
			nw["bpfr"] = projExpr(bx)
			nw["g"] = canon(nx.Get(evalDoc))
			if err == nil {
				nw["pg"] = canon(px.Get(evalDoc))
			} else {
				nw["pg"] = []any{}
			}
		})
		if p {
			nw = M{"panic": true, "msg": msg}
		}
		ev["nw"] = nw
		hist = append(hist, ev)
	}
	return M{"k": "build", "h": hist}
}

func chainJSON(ch []call) []any {
	out := make([]any, 0, len(ch))
	for _, c := range ch {
		a := c.A
		if a == nil {
			a = []any{}
		}
		out = append(out, M{"m": c.M, "a": a})
	}
	return out
}

// ---------------------------------------------------------------------------------------------
// expand: decorate derivation shapes with calls

var keyA, keyB = []any{97.0}, []any{98.0}

func i2(xs ...int) []any {
	out := make([]any, 0, len(xs))
	for _, x := range xs {
		out = append(out, float64(x))
	}
	return out
}

type tmpl struct {
	m string
	a func(r *rand.Rand) []any
}

func none(*rand.Rand) []any { return []any{} }
func keyArg(r *rand.Rand) []any {
	if r.Intn(2) == 0 {
		return []any{keyA}
	}
	return []any{keyB}
}
func nthArg(r *rand.Rand) []any { return []any{i2([]int{0, 1, -1, 2}[r.Intn(4)])} }
func sliceArg(r *rand.Rand) []any {
	return []any{[][]any{i2(1), i2(0), i2(0, 2), i2(1, -1), i2(0, 3, 2), i2(-2, 5, 1), i2(1, 2, 1, 9)}[r.Intn(7)]}
}
func unionArg(r *rand.Rand) []any {
	return [][]any{
		{i2(0, 0), i2(0, 2)},
		{append(i2(1), keyA...), append(i2(1), keyB...)},
		{append(i2(1), keyA...), i2(0, 1)},
		{i2(0, 1)},
		{append(i2(1), keyB...)},
		{i2(0, -1), i2(0, 0), append(i2(1), keyA...)},
	}[r.Intn(6)]
}
func eqArg(r *rand.Rand) []any { return []any{i2(r.Intn(len(eqCat)))} }

var ctors = []tmpl{{"R", none}, {"A", none}, {"C", keyArg}, {"N", nthArg}, {"W", none}, {"D", none}, {"S", sliceArg}, {"U", unionArg},
	{"F", eqArg}, {"X", none}, {"B", none}, {"Parse", none}}
var meths = []tmpl{{"C", keyArg}, {"Child", keyArg}, {"N", nthArg}, {"Nth", nthArg}, {"W", none}, {"Wildcard", none}, {"D", none},
	{"Descent", none}, {"S", sliceArg}, {"Slice", sliceArg}, {"U", unionArg}, {"Union", unionArg}, {"F", eqArg}, {"Filter", eqArg},
	{"B", none}, {"A", none}, {"At", none}, {"R", none}, {"Root", none}}

// parse chains never contain Bracket, Root/At beyond the first place or a descent next to a descent (the text is then
// inside the documented language and the parsed value is the chain's value)
func parseChain(r *rand.Rand) []any {
	n := 1 + r.Intn(4)
	out := []any{}
	first := []tmpl{{"R", none}, {"A", none}, {"C", keyArg}}[r.Intn(3)]
	out = append(out, M{"m": first.m, "a": first.a(r)})
	lastD := false
	for i := 0; i < n; i++ {
		t := meths[r.Intn(14)]
		if (t.m == "D" || t.m == "Descent") && lastD {
			t = meths[0]
		}
		if t.m == "U" || t.m == "Union" { // one-member unions print as a child or an index
			out = append(out, M{"m": t.m, "a": []any{i2(0, 0), i2(0, 2)}})
		} else if t.m == "S" || t.m == "Slice" { // the text holds start, end and step only
			out = append(out, M{"m": t.m, "a": []any{i2(0, 3, 2)}})
		} else {
			out = append(out, M{"m": t.m, "a": t.a(r)})
		}
		lastD = t.m == "D" || t.m == "Descent"
	}
	return out
}

func expand(variants int, seed int64) {
	r := rand.New(rand.NewSource(seed))
	in := bufio.NewScanner(os.Stdin)
	in.Buffer(make([]byte, 1<<20), 1<<26)
	w := bufio.NewWriter(os.Stdout)
	defer w.Flush()
	enc := json.NewEncoder(w)
	n := 0
	for in.Scan() {
		var sh struct {
			Sh []int `json:"sh"`
		}
		if err := json.Unmarshal(in.Bytes(), &sh); err != nil || len(sh.Sh) == 0 {
			continue
		}
		for v := 0; v < variants; v++ {
			steps := make([]any, 0, len(sh.Sh))
			for i, rcv := range sh.Sh {
				var t tmpl
				if rcv == 0 {
					// round robin over the constructors so that every one is met, biased to the rooted ones
					t = ctors[(n+i+v)%len(ctors)]
					if v%2 == 1 {
						t = ctors[r.Intn(3)]
					}
				} else {
					t = meths[(n*7+i*3+v)%len(meths)]
					if v%3 == 2 { // plain chains of children and indexes: the common use
						t = meths[r.Intn(4)]
					}
				}
				st := M{"r": rcv, "m": t.m, "a": t.a(r), "ch": []any{}}
				if t.m == "Parse" {
					st["ch"] = parseChain(r)
				}
				steps = append(steps, st)
			}
			_ = enc.Encode(M{"k": "build", "steps": steps})
		}
		n++
	}
}

// ---------------------------------------------------------------------------------------------
// procedures (jp.Procedure) with a call log; the same catalogue is defined in spec/ProcEval.tla

type callLog struct{ calls []any }

type proc struct {
	name string
	log  *callLog
}

func elems(data any) ([]any, bool) {
	switch td := data.(type) {
	case []any:
		return td, true
	case gen.Array:
		out := make([]any, 0, len(td))
		for _, n := range td {
			if n == nil {
				out = append(out, nil)
			} else {
				out = append(out, n)
			}
		}
		return out, true
	case *idxList:
		return td.v, true
	}
	return nil, false
}

func (p *proc) results(data any) []any {
	switch p.name {
	case "kids":
		e, _ := elems(data)
		return append([]any{}, e...)
	case "rev":
		e, _ := elems(data)
		out := make([]any, 0, len(e))
		for i := len(e) - 1; 0 <= i; i-- {
			out = append(out, e[i])
		}
		return out
	case "self":
		return []any{data}
	case "none":
		return []any{}
	case "pair":
		return []any{8, 9}
	case "wrap":
		e, _ := elems(data)
		out := make([]any, 0, len(e))
		for _, v := range e {
			out = append(out, map[string]any{"a": v})
		}
		return out
	}
	panic("xproc: unknown procedure " + p.name)
}

func (p *proc) Get(data any) []any {
	p.log.calls = append(p.log.calls, M{"op": "Get", "arg": proj(data)})
	return p.results(data)
}

func (p *proc) First(data any) any {
	p.log.calls = append(p.log.calls, M{"op": "First", "arg": proj(data)})
	if r := p.results(data); 0 < len(r) {
		return r[0]
	}
	return nil
}

var theLog = &callLog{}

func compile(code []byte) jp.Procedure {
	name := string(code)
	if 2 <= len(name) && name[0] == '(' && name[len(name)-1] == ')' {
		name = name[1 : len(name)-1]
	}
	return &proc{name: name, log: theLog}
}

// mkFrag makes a fragment of a proc case: {"f": kind, "k": key, "n": index, "p": procedure name}
func mkFrag(f any) jp.Frag {
	m := f.(map[string]any)
	switch m["f"].(string) {
	case "root":
		return jp.Root('$')
	case "at":
		return jp.At('@')
	case "child":
		return jp.Child(m["k"].(string))
	case "nth":
		return jp.Nth(int(m["n"].(float64)))
	case "wild":
		return jp.Wildcard('*')
	case "filter":
		return eqCat[0]().Filter()
	case "proc":
		name := m["p"].(string)
		return &jp.Proc{Procedure: &proc{name: name, log: theLog}, Script: []byte("(" + name + ")")}
	}
	panic(fmt.Sprintf("xproc: unknown fragment %v", f))
}

func projLocs(locs []jp.Expr) []any {
	out := make([]any, 0, len(locs))
	for _, l := range locs {
		out = append(out, projExpr(l))
	}
	return out
}

func execProc(c M) M {
	jp.CompileScript = compile
	rep, _ := c["rep"].(string)
	var x jp.Expr
	for _, f := range c["path"].([]any) {
		x = append(x, mkFrag(f))
	}
	out := M{"k": "proc", "rep": rep, "doc": c["doc"], "path": c["path"], "text": x.String()}
	mk := func() any { return build(c["doc"], rep) }
	run := func(key string, f func(x jp.Expr, data any) any) {
		theLog.calls = nil
		var res any
		p, msg := guard(func() { res = f(x, mk()) })
		if p {
			out[key] = M{"panic": msg}
			return
		}
		out[key] = M{"r": res, "calls": append([]any{}, theLog.calls...)}
	}
	run("get", func(x jp.Expr, d any) any { return projList(x.Get(d)) })
	run("first", func(x jp.Expr, d any) any { return proj(x.First(d)) })
	run("ff", func(x jp.Expr, d any) any { v, ok := x.FirstFound(d); return M{"v": proj(v), "ok": ok} })
	run("has", func(x jp.Expr, d any) any { return x.Has(d) })
	run("loc", func(x jp.Expr, d any) any { return projLocs(x.Locate(d, 0)) })
	run("set", func(x jp.Expr, d any) any { err := x.Set(d, 5); return M{"err": err != nil, "doc": proj(d)} })
	run("rm", func(x jp.Expr, d any) any {
		_, err := x.Remove(d)
		return M{"err": err != nil, "doc": proj(d)}
	})
	run("walk", func(x jp.Expr, d any) any {
		n := 0
		x.Walk(d, func(jp.Expr, []any) { n++ })
		return n
	})
	// the same path through its text form
	theLog.calls = nil
	p, msg := guard(func() {
		px, err := jp.ParseString(x.String())
		if err != nil {
			out["parsed"] = M{"err": true, "msg": err.Error(), "r": []any{}, "fr": []any{}}
			return
		}
		out["parsed"] = M{"err": false, "msg": "", "r": projList(px.Get(mk())), "fr": projExpr(px)}
	})
	if p {
		out["parsed"] = M{"panic": msg}
	}
	return out
}

// ---------------------------------------------------------------------------------------------
// user registered functions

var fnLog []any

func cnt(v any) int64 {
	if v == jp.Nothing || v == nil {
		return 0
	}
	if l, ok := elems(v); ok {
		return int64(len(l))
	}
	return 1
}

func registerFns() {
	jp.RegisterUnaryFunction("xufn", false, func(a any) any { return cnt(a) })
	jp.RegisterBinaryFunction("xbffn", false, false, func(l, r any) any { return cnt(l)*10 + cnt(r) })
	for _, g := range []bool{false, true} {
		g := g
		name := "xuf"
		if g {
			name = "xug"
		}
		for _, usage := range []string{"n", "b"} {
			usage := usage
			jp.RegisterUnaryFunction(name+usage, g, func(a any) any {
				fnLog = append(fnLog, M{"l": proj(a), "r": M{"unused": 0}})
				if usage == "b" {
					return cnt(a) == 2
				}
				return cnt(a)
			})
		}
	}
	for _, gl := range []bool{false, true} {
		for _, gr := range []bool{false, true} {
			name := "xb" + map[bool]string{false: "f", true: "g"}[gl] + map[bool]string{false: "f", true: "g"}[gr]
			for _, usage := range []string{"n", "b"} {
				usage := usage
				jp.RegisterBinaryFunction(name+usage, gl, gr, func(l, r any) any {
					fnLog = append(fnLog, M{"l": proj(l), "r": proj(r)})
					n := cnt(l)*10 + cnt(r)
					if usage == "b" {
						return n == 12
					}
					return n
				})
			}
		}
	}
}

func argText(a any) string {
	switch a.(string) {
	case "a":
		return "@.a"
	case "astar":
		return "@.a[*]"
	case "zz":
		return "@.zz"
	}
	return "3"
}

func execFn(c M) M {
	ar := int(c["ar"].(float64))
	gl, _ := c["gl"].(bool)
	gr, _ := c["gr"].(bool)
	usage := c["usage"].(string)
	name := "xu" + map[bool]string{false: "f", true: "g"}[gl]
	args := argText(c["l"])
	if ar == 2 {
		name = "xb" + map[bool]string{false: "f", true: "g"}[gl] + map[bool]string{false: "f", true: "g"}[gr]
		args += ", " + argText(c["r"])
	}
	var text string
	if usage == "bool" {
		text = fmt.Sprintf("$[?%sb(%s)]", name, args)
	} else {
		text = fmt.Sprintf("$[?(%sn(%s) == %d)]", name, args, int(c["c"].(float64)))
	}
	out := M{"k": "fn", "ar": ar, "gl": gl, "gr": gr, "usage": usage, "c": c["c"], "l": c["l"], "r": c["r"], "elem": c["elem"], "text": text,
		"rep": c["rep"]}
	rep, _ := c["rep"].(string)
	p, msg := guard(func() {
		x, err := jp.ParseString(text)
		if err != nil {
			out["perr"] = true
			out["sel"] = false
			out["calls"] = []any{}
			out["str"] = ""
			return
		}
		out["perr"] = false
		out["str"] = x.String()
		fnLog = nil
		var doc any = []any{build(c["elem"], rep)}
		if rep == "gen" {
			doc = gen.Array{build(c["elem"], rep).(gen.Node)}
		}
		got := x.Get(doc)
		out["sel"] = len(got) == 1
		out["calls"] = append([]any{}, fnLog...)
		// the printed form evaluates alike
		if x2, err2 := jp.ParseString(x.String()); err2 == nil {
			out["sel2"] = len(x2.Get(doc)) == 1
		} else {
			out["sel2"] = "err"
		}
	})
	if p {
		out["panic"] = msg
	}
	return out
}

// ---------------------------------------------------------------------------------------------
// Script.Inspect

func astText(a any, top bool) string {
	m := a.(map[string]any)
	if p, ok := m["path"]; ok {
		return "@." + p.(string)
	}
	if c, ok := m["c"]; ok {
		return strconv.Itoa(int(c.(float64)))
	}
	op := m["op"].(string)
	sub := func(x any) string {
		if xm := x.(map[string]any); xm["op"] != nil {
			switch xm["op"].(string) {
			case "length", "count", "xufn", "xbffn":
				return astText(x, false)
			}
			return "(" + astText(x, false) + ")"
		}
		return astText(x, false)
	}
	switch op {
	case "!":
		return "!" + sub(m["l"])
	case "length", "count", "xufn":
		return op + "(" + astText(m["l"], false) + ")"
	case "xbffn":
		return op + "(" + astText(m["l"], false) + ", " + astText(m["r"], false) + ")"
	}
	return sub(m["l"]) + " " + op + " " + sub(m["r"])
}

func projForm(v any) any {
	switch tv := v.(type) {
	case nil:
		return M{"none": 0}
	case *jp.Form:
		if tv == nil {
			return M{"none": 0}
		}
		return M{"op": tv.Op, "l": projForm(tv.Left), "r": projForm(tv.Right)}
	case jp.Expr:
		if len(tv) == 2 {
			if _, ok := tv[0].(jp.At); ok {
				if c, ok := tv[1].(jp.Child); ok {
					return M{"path": string(c)}
				}
			}
		}
		return M{"expr": tv.String()}
	case int64:
		return M{"c": tv}
	case int:
		return M{"c": tv}
	}
	return M{"x": fmt.Sprintf("%T", v)}
}

func execForm(c M) M {
	text := "(" + astText(c["ast"], true) + ")"
	out := M{"k": "form", "ast": c["ast"], "text": text}
	p, msg := guard(func() {
		s, err := jp.NewScript(text)
		if err != nil {
			out["perr"] = true
			out["form"] = M{"none": 0}
			return
		}
		out["perr"] = false
		out["form"] = projForm(s.Inspect())
		out["str"] = s.String()
	})
	if p {
		out["panic"] = msg
	}
	return out
}

// ---------------------------------------------------------------------------------------------

func main() {
	if len(os.Args) < 2 {
		fmt.Fprintln(os.Stderr, "usage: xproc expand|exec")
		os.Exit(2)
	}
	seed, _ := strconv.ParseInt(os.Getenv("VERIF_SEED"), 10, 64)
	if seed == 0 {
		seed = 1
	}
	switch os.Args[1] {
	case "expand":
		fs := flag.NewFlagSet("expand", flag.ExitOnError)
		v := fs.Int("v", 3, "variants per shape")
		_ = fs.Parse(os.Args[2:])
		expand(*v, seed)
	case "exec":
		registerFns()
		in := bufio.NewScanner(os.Stdin)
		in.Buffer(make([]byte, 1<<20), 1<<26)
		w := bufio.NewWriter(os.Stdout)
		defer w.Flush()
		enc := json.NewEncoder(w)
		for in.Scan() {
			if len(in.Bytes()) == 0 {
				continue
			}
			var c M
			if err := json.Unmarshal(in.Bytes(), &c); err != nil {
				fmt.Fprintln(os.Stderr, "bad case:", err)
				os.Exit(2)
			}
			var out M
			switch c["k"] {
			case "build":
				out = execBuild(c)
			case "proc":
				out = execProc(c)
			case "fn":
				out = execFn(c)
			case "form":
				out = execForm(c)
			default:
				fmt.Fprintln(os.Stderr, "unknown case kind", c["k"])
				os.Exit(2)
			}
			if err := enc.Encode(out); err != nil {
				fmt.Fprintln(os.Stderr, err)
				os.Exit(2)
			}
		}
	default:
		fmt.Fprintln(os.Stderr, "usage: xproc expand|exec")
		os.Exit(2)
	}
}
