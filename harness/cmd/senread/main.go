// Command senread drives the real SEN readers for the extension check XSEN (spec/SenReader.tla).
//
//	senread cover   -states st.ndjson [-light|-bytes] > cases.ndjson   (TLC transition cover -> inputs: all 256 bytes + completions)
//	senread random  -n N                          > cases.ndjson   (documents built from the documented SEN features + mutations)
//	senread examples                              > cases.ndjson   (the documented examples and their near misses)
//	senread exec    [-apis strict|all]            < cases.ndjson > trace.ndjson
//	senread probe                                 < probes.ndjson > result.ndjson  (completion probing)
//
// Every call uses a FRESH sen.Parser / sen.Tokenizer (instance reuse is C07's subject) on which AddMongoFuncs and the
// one-letter function f(args...) = ["f", args...] were registered (the constant Funcs of the specification).
package main

import (
	"bufio"
	"encoding/json"
	"flag"
	"fmt"
	"math/big"
	"math/rand"
	"os"
	"runtime"
	"sort"
	"strconv"
	"strings"
	"sync"
	"time"

	ojgen "github.com/ohler55/ojg/gen"
	"github.com/ohler55/ojg/sen"

	"verif/harness/absval"
	"verif/harness/plib"
)

type state struct {
	Pc    string `json:"pc"`
	Top   string `json:"top"`
	Depth int    `json:"depth"`
	Sk    string `json:"sk"`
	Key   string `json:"key"`
	W     []int  `json:"w"`
	C     []int  `json:"c"`
	Cl    []int  `json:"cl"`
}

type group struct {
	As []string `json:"as"`
	R  int      `json:"r"`
	M  string   `json:"m,omitempty"`
	V  any      `json:"v,omitempty"`
}

type traceLine struct {
	B   []int   `json:"b"`
	Src string  `json:"src,omitempty"`
	O   []group `json:"o"`
}

var valOpt = absval.Opt{AlwaysDec: true, FloatMid: true}

func fnF(args ...any) any { return append([]any{"f"}, args...) }

func newParser() *sen.Parser {
	p := &sen.Parser{}
	p.AddMongoFuncs()
	p.AddTokenFunc("f", fnF)
	return p
}

// api names: the strict ones are sen.Parser.Parse and sen.Parser.ParseReader (one read, input shorter than the 4096-byte buffer)
var apisStrict = []string{"sen.Parser.Parse", "sen.Parser.ParseReader"}
var apisAll = []string{"sen.Parser.Parse", "sen.Parser.ParseReader", "sen.Parser.ParseReader@1", "sen.Tokenizer.Parse", "sen.Tokenizer.Load@1"}

func call(api string, in []byte) (o plib.Obs) {
	o.API = api
	defer func() {
		if x := recover(); x != nil {
			o.R = 2
			o.Msg = fmt.Sprintf("%T: %v", x, x)
			if len(o.Msg) > 120 {
				o.Msg = o.Msg[:120]
			}
			o.Value = nil
			o.HasV = false
		}
	}()
	b := append([]byte{}, in...)
	var v any
	var err error
	switch api {
	case "sen.Parser.Parse":
		v, err = newParser().Parse(b)
	case "sen.Parser.ParseReader":
		if len(b) >= 4096 {
			o.API = "sen.Parser.ParseReader@multi" // more than one buffer: a chunked read (C03)
		}
		v, err = newParser().ParseReader(plib.Chunked(b, "whole"))
	case "sen.Parser.ParseReader@1":
		v, err = newParser().ParseReader(plib.Chunked(b, "1"))
	case "sen.Tokenizer.Parse":
		t := sen.Tokenizer{OnlyOne: true}
		h := &plib.BuildHandler{}
		err = t.Parse(b, h)
		v = h.Result()
	case "sen.Tokenizer.Load@1":
		t := sen.Tokenizer{OnlyOne: true}
		h := &plib.BuildHandler{}
		err = t.Load(plib.Chunked(b, "1"), h)
		v = h.Result()
	default:
		panic("unknown api " + api)
	}
	if err == nil {
		o.R = 1
		o.Value = v
		o.HasV = true
	} else {
		o.R = 0
		o.Msg = err.Error()
	}
	return
}

func depthOf(v any) int {
	d := 0
	switch t := v.(type) {
	case []any:
		for _, e := range t {
			if x := depthOf(e); x > d {
				d = x
			}
		}
		return d + 1
	case map[string]any:
		for _, e := range t {
			if x := depthOf(e); x > d {
				d = x
			}
		}
		return d + 1
	case ojgen.Array:
		return 1
	}
	return 0
}

// encode projects a returned value with absval, except that time.Time is projected here: absval goes through UnixNano(), which
// overflows for instants beyond 2262-04-11 (exactly the range of finding F7), so seconds and nanoseconds are taken separately.
//
//	{"t":"time","sec": unix seconds (-1 if outside 0..2^31), "ns": nanoseconds within the second, "sub": nanoseconds within the
//	 millisecond, "ms": unix milliseconds as an exact decimal}
func encode(v any) any {
	switch t := v.(type) {
	case time.Time:
		sec := t.Unix()
		ns := int64(t.Nanosecond())
		ms := new(big.Int).Mul(big.NewInt(sec), big.NewInt(1000))
		ms.Add(ms, big.NewInt(ns/1_000_000))
		s := int64(-1)
		if sec >= 0 && sec < 1<<31 {
			s = sec
		}
		return map[string]any{"t": "time", "sec": s, "ns": ns, "sub": ns % 1_000_000, "ms": absval.Dec(ms.String())}
	case []any:
		a := make([]any, len(t))
		for i, e := range t {
			a[i] = encode(e)
		}
		return map[string]any{"t": "arr", "v": a}
	case map[string]any:
		keys := make([]string, 0, len(t))
		for k := range t {
			keys = append(keys, k)
		}
		sort.Strings(keys)
		ks := make([]any, len(keys))
		vs := make([]any, len(keys))
		for i, k := range keys {
			ks[i] = valOpt.Encode(k).(map[string]any)["v"]
			vs[i] = encode(t[k])
		}
		return map[string]any{"t": "obj", "k": ks, "v": vs}
	}
	return valOpt.Encode(v)
}

func observe(in []byte, apis []string) []group {
	idx := map[string]int{}
	gs := []group{}
	for _, api := range apis {
		o := call(api, in)
		var v any
		key := fmt.Sprintf("%d", o.R)
		if o.R == 1 && depthOf(o.Value) <= 60 { // TLC's JSON reader has a nesting limit: deeper documents are judged for syntax only
			v = encode(o.Value)
			jb, _ := json.Marshal(v)
			key += string(jb)
		}
		if o.R == 2 {
			key += o.Msg
		}
		if i, ok := idx[key]; ok {
			gs[i].As = append(gs[i].As, o.API)
		} else {
			idx[key] = len(gs)
			g := group{As: []string{o.API}, R: o.R, V: v}
			if o.R == 2 {
				g.M = o.Msg
			}
			gs = append(gs, g)
		}
	}
	return gs
}

func main() {
	if len(os.Args) < 2 {
		fmt.Fprintln(os.Stderr, "usage: senread cover|random|examples|exec|probe ...")
		os.Exit(2)
	}
	switch os.Args[1] {
	case "cover":
		cover(os.Args[2:])
	case "random":
		random(os.Args[2:])
	case "examples":
		examples()
	case "exec":
		execCases(os.Args[2:])
	case "probe":
		probe()
	default:
		fmt.Fprintln(os.Stderr, "unknown mode", os.Args[1])
		os.Exit(2)
	}
}

func readLines(f *os.File, fn func([]byte)) {
	sc := bufio.NewScanner(f)
	sc.Buffer(make([]byte, 1<<20), 1<<28)
	for sc.Scan() {
		if len(sc.Bytes()) > 0 {
			fn(append([]byte{}, sc.Bytes()...))
		}
	}
}

func cat(a ...[]byte) []byte {
	var r []byte
	for _, x := range a {
		r = append(r, x...)
	}
	return r
}

// ---------------------------------------------------------------- cover
// one representative per byte class of SenReader!Rep plus the bytes with a role of their own
var classReps = []byte(" \t\r\n{}[](),:\"'\\/*+-.01eEuntfax_^~$@!#=;`|\x01\x7f\x80\xc3\xa9\xef\xbb\xbf\xe0\xed\xf0\xf4\xff")
var embeddings = [][2]string{{"[ab 'c'\n ", "]"}, {"{k:\"v\" x:[1.5e3 // c\n", "]}"}}
var confusions = []string{"0", "1]", "1}", "a:0", ":0", "\"", "\":0", ",0", " 0", "ull", "rue", ".5", "e1", "/", "*/", "\n", "\"x\"", ")", "(", "+\"\""}

func cover(args []string) {
	fs := flag.NewFlagSet("cover", flag.ExitOnError)
	stf := fs.String("states", "", "ndjson of model states with witness and completion")
	light := fs.Bool("light", false, "class representatives instead of all 256 bytes; no confusion continuations")
	bytesOnly := fs.Bool("bytes", false, "only w.b and w.b.c for all 256 bytes")
	fs.Parse(args)
	f, err := os.Open(*stf)
	if err != nil {
		panic(err)
	}
	best := map[string]state{}
	readLines(f, func(l []byte) {
		var s state
		if err := json.Unmarshal(l, &s); err != nil {
			panic(err)
		}
		if s.Pc == "Err" || s.Pc == "Cut" || s.Pc == "Amb" {
			return
		}
		if b, ok := best[s.Key]; !ok || len(s.W) < len(b.W) {
			best[s.Key] = s
		}
	})
	keys := make([]string, 0, len(best))
	for k := range best {
		keys = append(keys, k)
	}
	sort.Strings(keys)
	out := bufio.NewWriterSize(os.Stdout, 1<<20)
	defer out.Flush()
	seen := map[string]bool{}
	emit := func(in []byte, src string) {
		if seen[string(in)] {
			return
		}
		seen[string(in)] = true
		out.Write(plib.MarshalLine(plib.Case{B: plib.Ints(in), Src: src}))
	}
	for _, k := range keys {
		s := best[k]
		w, c, cl := plib.Bytes(s.W), plib.Bytes(s.C), plib.Bytes(s.Cl)
		tag := s.Pc + "/" + s.Top
		emit(w, "eof:"+tag)
		emit(cat(w, c), "compl:"+tag)
		if *light {
			for _, x := range classReps {
				emit(cat(w, []byte{x}), "step:"+tag)
				emit(cat(w, []byte{x}, c), "step+c:"+tag)
			}
			continue
		}
		for x := 0; x < 256; x++ {
			in := cat(w, []byte{byte(x)})
			emit(in, "step:"+tag)
			emit(cat(in, c), "step+c:"+tag)
		}
		if *bytesOnly {
			continue
		}
		// the same transitions behind earlier tokens, so that registers left behind by an earlier token are live
		if len(w) == 0 || w[0] != 0xEF {
			for _, em := range embeddings {
				pre, post := []byte(em[0]), []byte(em[1])
				emit(cat(pre, w), "emb-eof:"+tag)
				emit(cat(pre, w, c, post), "emb-compl:"+tag)
				for _, x := range classReps {
					in := cat(pre, w, []byte{x})
					emit(in, "emb-step:"+tag)
					emit(cat(in, c, post), "emb-step+c:"+tag)
				}
			}
		}
		// continuations "as if the byte had been accepted into some other grammar position"
		for _, x := range classReps {
			in := cat(w, []byte{x})
			for _, mid := range confusions {
				emit(cat(in, []byte(mid), cl), "step+conf:"+tag)
			}
		}
	}
}

// ---------------------------------------------------------------- random documents from the documented features
type gen struct {
	r    *rand.Rand
	feat map[string]bool
}

func (g *gen) pick(s string) byte { return s[g.r.Intn(len(s))] }

// separator between values: white space, a comma, both, or a comment (D2, D5)
func (g *gen) sep(sb *strings.Builder) {
	switch g.r.Intn(8) {
	case 0:
		sb.WriteByte(',')
	case 1:
		sb.WriteString(", ")
	case 2:
		sb.WriteString(" ,")
	case 3:
		sb.WriteByte('\n')
	case 4:
		g.comment(sb)
	default:
		sb.WriteByte(' ')
	}
}

func (g *gen) ws(sb *strings.Builder) {
	for g.r.Intn(4) == 0 {
		if g.r.Intn(6) == 0 {
			g.comment(sb)
		} else {
			sb.WriteByte(" \n\t\r"[g.r.Intn(4)])
		}
	}
}

var commentWords = []string{"c", "note: x", "*", "**", "* *", "/", "a*b", "\"", "'", "{[", "\t", "é", "", " ", "x\ty"}

func (g *gen) comment(sb *strings.Builder) {
	g.feat["comment"] = true
	w := commentWords[g.r.Intn(len(commentWords))]
	if g.r.Intn(2) == 0 {
		sb.WriteString("//" + w)
		if g.r.Intn(5) == 0 {
			sb.WriteString("\r")
		}
		sb.WriteString("\n")
	} else {
		sb.WriteString("/*" + strings.ReplaceAll(w, "*/", "* /") + "*/")
		if strings.HasSuffix(w, "*") && g.r.Intn(2) == 0 {
			sb.WriteString(" ")
		}
	}
}

func (g *gen) strBody(sb *strings.Builder, q byte) {
	n := g.r.Intn(6)
	for i := 0; i < n; i++ {
		switch g.r.Intn(10) {
		case 0:
			sb.WriteByte('\\')
			sb.WriteByte(g.pick("\"\\/bfnrt'"))
		case 1:
			fmt.Fprintf(sb, "\\u%04x", g.r.Intn(0x10000))
		case 2:
			sb.WriteString([]string{"é", "Ａ", "😀", "\xff", "\x80"}[g.r.Intn(5)])
		case 3:
			sb.WriteByte(g.pick("\n\t\r"))
		case 4:
			if q == '"' {
				sb.WriteByte('\'')
			} else {
				sb.WriteByte('"')
			}
		default:
			c := byte(0x20 + g.r.Intn(0x5f))
			if c == q || c == '\\' {
				c = 'a'
			}
			sb.WriteByte(c)
		}
	}
}

func (g *gen) quoted(sb *strings.Builder) {
	q := g.pick("\"\"'")
	if q == '\'' {
		g.feat["squote"] = true
	}
	sb.WriteByte(q)
	g.strBody(sb, q)
	sb.WriteByte(q)
}

const tokStart = "abcdefghijklmnopqrstuvwxyzABCDEFGHIJKLMNOPQRSTUVWXYZ_^~."
const tokCont = tokStart + "0123456789-"

var tokWords = []string{"null", "true", "false", "nul", "nulll", "True", "e", "E", "f", "fx", "ISODate", "é", "Ａb", "a-1", ".5", "_", "^", "~", "...", "n", "t"}

func (g *gen) token(sb *strings.Builder) {
	g.feat["token"] = true
	if g.r.Intn(4) == 0 {
		sb.WriteString(tokWords[g.r.Intn(len(tokWords))])
		return
	}
	sb.WriteByte(g.pick(tokStart))
	for g.r.Intn(3) != 0 {
		if g.r.Intn(8) == 0 {
			sb.WriteString([]string{"é", "Ａ", "😀"}[g.r.Intn(3)])
		} else {
			sb.WriteByte(g.pick(tokCont))
		}
	}
}

func (g *gen) digits(sb *strings.Builder, max int) {
	n := 1 + g.r.Intn(max)
	for i := 0; i < n; i++ {
		sb.WriteByte(byte('0' + g.r.Intn(10)))
	}
}

func (g *gen) num(sb *strings.Builder) {
	if g.r.Intn(3) == 0 {
		sb.WriteByte('-')
	}
	if g.r.Intn(4) == 0 {
		sb.WriteByte('0')
	} else {
		sb.WriteByte(byte('1' + g.r.Intn(9)))
		if g.r.Intn(2) == 0 {
			max := 6
			if g.r.Intn(6) == 0 {
				max = 25
			}
			g.digits(sb, max)
		}
	}
	if g.r.Intn(3) == 0 {
		sb.WriteByte('.')
		g.digits(sb, 5)
	}
	if g.r.Intn(4) == 0 {
		sb.WriteByte("eE"[g.r.Intn(2)])
		if g.r.Intn(2) == 0 {
			sb.WriteByte("+-"[g.r.Intn(2)])
		}
		g.digits(sb, 2)
	}
}

var isoDates = []string{"2021-06-28T10:11:12Z", "1970-01-01T00:00:00Z", "2000-02-29T23:59:59Z", "2037-12-31T00:00:01Z", "1999-12-31T12:00:00Z"}

func (g *gen) fn(sb *strings.Builder, depth int) {
	g.feat["func"] = true
	switch g.r.Intn(7) {
	case 0:
		fmt.Fprintf(sb, "ISODate(%q)", isoDates[g.r.Intn(len(isoDates))])
	case 1:
		switch g.r.Intn(6) {
		case 0: // beyond what fits into int64 nanoseconds
			fmt.Fprintf(sb, "ISODate(%d)", 9_223_372_036_855+g.r.Int63n(90_000_000_000_000))
		case 1:
			fmt.Fprintf(sb, "ISODate(-%d)", g.r.Int63n(2_000_000_000_000))
		default:
			fmt.Fprintf(sb, "ISODate(%d)", g.r.Int63n(2_000_000_000_000))
		}
	case 2:
		fmt.Fprintf(sb, "ObjectId(\"%x\")", g.r.Int63())
	case 3:
		fmt.Fprintf(sb, "%s(\"%d\")", []string{"NumberInt", "NumberLong"}[g.r.Intn(2)], g.r.Int63()-g.r.Int63())
	case 4:
		fmt.Fprintf(sb, "NumberLong(\"%d%d\")", g.r.Int63(), g.r.Int63())
	case 5:
		fmt.Fprintf(sb, "NumberDecimal(\"%d.%d\")", g.r.Intn(1000), g.r.Intn(1000))
	default:
		sb.WriteString("f(")
		n := g.r.Intn(3)
		for i := 0; i < n; i++ {
			if i > 0 {
				g.sep(sb)
			}
			g.value(sb, depth-1)
		}
		if n > 0 && g.r.Intn(3) == 0 {
			sb.WriteByte(' ')
		}
		sb.WriteByte(')')
	}
}

// a value; returns true when the text ends with a bare token or number (something must separate it from what follows)
func (g *gen) value(sb *strings.Builder, depth int) {
	k := g.r.Intn(14)
	if depth <= 0 && k >= 9 {
		k = g.r.Intn(9)
	}
	switch k {
	case 0:
		sb.WriteString([]string{"null", "true", "false"}[g.r.Intn(3)])
	case 1, 2:
		g.num(sb)
	case 3, 4:
		g.token(sb)
	case 5, 6:
		g.quoted(sb)
	case 7: // D7
		g.feat["plus"] = true
		g.quoted(sb)
		for n := 1 + g.r.Intn(2); n > 0; n-- {
			sb.WriteString([]string{" + ", "+", " +", "+ ", "\n+\n"}[g.r.Intn(5)])
			g.quoted(sb)
		}
	case 8:
		g.fn(sb, depth)
	case 9, 10, 11:
		sb.WriteByte('[')
		g.ws(sb)
		n := g.r.Intn(4)
		for i := 0; i < n; i++ {
			if i > 0 {
				g.sep(sb)
			}
			g.value(sb, depth-1)
		}
		g.ws(sb)
		sb.WriteByte(']')
	default:
		sb.WriteByte('{')
		g.ws(sb)
		n := g.r.Intn(4)
		for i := 0; i < n; i++ {
			if i > 0 {
				g.sep(sb)
			}
			if g.r.Intn(2) == 0 {
				g.token(sb)
				if g.r.Intn(4) == 0 {
					g.ws(sb)
				}
			} else {
				g.quoted(sb)
				g.ws(sb)
			}
			sb.WriteByte(':')
			g.ws(sb)
			g.value(sb, depth-1)
		}
		g.ws(sb)
		sb.WriteByte('}')
	}
}

var structural = []byte(",:\"']}[{()-+.0 1eEntf\\/*u\n\t\r$@a_")

func (g *gen) mutate(b []byte) []byte {
	if len(b) == 0 {
		return []byte{structural[g.r.Intn(len(structural))]}
	}
	b = append([]byte{}, b...)
	i := g.r.Intn(len(b))
	switch g.r.Intn(5) {
	case 0:
		return append(b[:i], b[i+1:]...)
	case 1:
		return append(b[:i], append([]byte{structural[g.r.Intn(len(structural))]}, b[i:]...)...)
	case 2:
		b[i] = structural[g.r.Intn(len(structural))]
	case 3:
		b[i] = byte(g.r.Intn(256))
	default:
		return b[:i]
	}
	return b
}

func seed() int64 {
	s, _ := strconv.ParseInt(os.Getenv("VERIF_SEED"), 10, 64)
	if s == 0 {
		s = 1
	}
	return s
}

func random(args []string) {
	fs := flag.NewFlagSet("random", flag.ExitOnError)
	n := fs.Int("n", 1000, "number of documents")
	fs.Parse(args)
	g := &gen{r: rand.New(rand.NewSource(seed()))}
	out := bufio.NewWriterSize(os.Stdout, 1<<20)
	defer out.Flush()
	for i := 0; i < *n; i++ {
		g.feat = map[string]bool{}
		var sb strings.Builder
		if g.r.Intn(12) == 0 {
			sb.WriteString("\xef\xbb\xbf")
		}
		g.ws(&sb)
		g.value(&sb, 1+g.r.Intn(4))
		g.ws(&sb)
		b := []byte(sb.String())
		fts := make([]string, 0, len(g.feat))
		for f := range g.feat {
			fts = append(fts, f)
		}
		sort.Strings(fts)
		out.Write(plib.MarshalLine(plib.Case{B: plib.Ints(b), Src: "rand:" + strings.Join(fts, "+")}))
		m := b
		for k := 0; k < 1+g.r.Intn(3); k++ {
			m = g.mutate(m)
			out.Write(plib.MarshalLine(plib.Case{B: plib.Ints(m), Src: "rand-mut"}))
		}
	}
}

// ---------------------------------------------------------------- documented examples and near misses
var exampleDocs = []string{
	"{\n  one: 1\n  two: 2\n  array: [a b c]\n  yes: true\n}",
	"{\n  \"one\": 1,\n  \"two\": 2,\n  \"array\": [\"a\", \"b\", \"c\"],\n  \"yes\": true\n}",
	"[\"abc\" + \"def\"]", "[ISODate(\"2021-06-28T10:11:12Z\")]", "ISODate(\"2021-06-28T10:11:12Z\")", "\"abc\"", "'abc'",
	"1 // c", "1// c", "1// c\n", "1 // c\n", "{a:1} // done", "{a:1}\n// done\n", "[1] /* c */", "a // c", "\"a\" // c", "// c\n1", "/* c */ 1",
	"/***/ 1", "/* **/ 1", "/* * */ 1", "/**/1", "[1 /***/ 2]", "[1 /* c */ 2]", "[1 // c\n 2]", "[a// c\n b]", "[a/* c */b]", "{a// c\n:1}",
	"{a /* c */ : 1}", "{\"a\" // c\n : 1}", "{a:1 // c\n b:2}", "{a: // c\n 1}", "// a\tb\n1", "// c\r\n1", "[1 // c\r\n 2]", "/* a\tb\r\n */1",
	"[1,,2]", "[,1]", "[1,]", "{,a:1}", "{a,:1}", "{a:,1}", ",1", "1,", "'a\"b'", "\"a'b\"", "'a\\'b'", "\"a\\'b\"", "\"a\tb\"", "\"a\nb\"", "\"a\rb\"",
	"\"a\x01b\"", "\"abc\" + \"def\"", "[\"abc\"+\"def\"]", "[\"abc\" + 'def' + \"g\"]", "{a: \"x\" + \"y\"}", "{a: \"x\" + \"y\" b: 2}",
	"{a:\"x\" b:\"y\" + \"z\"}", "[\"a\" \"b\" + \"c\"]", "[\"a\" +\n \"b\"]", "[f(\"a\" + \"b\")]", "abc", "a-b", "a.b_c^d~e", "_x", ".5", "nul", "nulll", "null",
	"[null true false]", "{null:1 true:2}", "{a:null}", "[a b c]", "[a,b,c]", "{a:b}", "{a :1}", "{a\n:1}", "{a:b c:d}", "{a}", "{a:}", "[{a:}]", "{a:1 b:}",
	"{a:\n}", "{\"a\":}", "{:1}", "[a:1]", "[a", "[1 2", "[}", "{]", "é", "[Ａbc]", "Ａbc", "\xef\xbc\xa1", "\xef\xbb\xbf1", "\xef\xbb\xbf[a]", "\xef\xbb\xbfab",
	"[1.]", "[1.e5]", "1.", "{a:1.}", "[-1.]", "[0.]", "f(\"abc\"]", "[f(\"abc\"])", "f(1 2]", "f(\"x\")", "f()", "f(1 2)", "f(a, b)", "f(f(1))", "{a:f(1)}",
	"ObjectId(\"abc\")", "NumberInt(\"123\")", "NumberLong(\"99999999999999999999\")", "NumberDecimal(\"1.5\")", "ISODate(1624875072000)", "ISODate(1624875072123)", "ISODate(-1500)", "ISODate(18190806821178)",
	"NumberLong(\"4294967296\")", "NumberInt(\"-9223372036854775807\")", "NumberLong(\"9223372036854775808\")", "{a~b:1}", "[~ ^ _ .]", "a~",
	"\"\\uD83D\\uDE00\"", "{\"a\":1,\"a\":2}", "{a:1 a:2}", "[9223372036854775807]", "[1e5]", "[-0]", "[0E0]",
}

func examples() {
	out := bufio.NewWriterSize(os.Stdout, 1<<20)
	defer out.Flush()
	for _, d := range exampleDocs {
		for _, c := range []string{"L", "[L]", "{k:L}", "[x L y]", " L\n"} {
			doc := strings.ReplaceAll(c, "L", d)
			out.Write(plib.MarshalLine(plib.Case{B: plib.Ints([]byte(doc)), Src: "example"}))
		}
	}
}

// ---------------------------------------------------------------- exec
func execCases(args []string) {
	fs := flag.NewFlagSet("exec", flag.ExitOnError)
	apisName := fs.String("apis", "all", "strict | all")
	fs.Parse(args)
	apis := apisAll
	if *apisName == "strict" {
		apis = apisStrict
	}
	var cases []plib.Case
	readLines(os.Stdin, func(l []byte) {
		var c plib.Case
		if err := json.Unmarshal(l, &c); err != nil {
			panic(err)
		}
		cases = append(cases, c)
	})
	res := make([][]byte, len(cases))
	var wg sync.WaitGroup
	nw := runtime.NumCPU()
	cur := -1
	var mu sync.Mutex
	inflight := make([]int64, nw)
	inflightCase := make([]int, nw)
	for w := 0; w < nw; w++ {
		wg.Add(1)
		go func(w int) {
			defer wg.Done()
			for {
				mu.Lock()
				cur++
				i := cur
				if i >= len(cases) {
					inflight[w] = 0
					mu.Unlock()
					return
				}
				inflight[w] = time.Now().UnixNano()
				inflightCase[w] = i
				mu.Unlock()
				in := plib.Bytes(cases[i].B)
				res[i] = plib.MarshalLine(traceLine{B: cases[i].B, Src: cases[i].Src, O: observe(in, apis)})
			}
		}(w)
	}
	// watchdog: a call that does not come back within 20 s is a hang; report the case and stop (exit 3)
	done := make(chan struct{})
	go func() { wg.Wait(); close(done) }()
	tick := time.NewTicker(time.Second)
loop:
	for {
		select {
		case <-done:
			break loop
		case <-tick.C:
			mu.Lock()
			for w := range inflight {
				if inflight[w] != 0 && time.Now().UnixNano()-inflight[w] > int64(20*time.Second) {
					fmt.Fprintf(os.Stderr, "HANG %s\n", plib.MarshalLine(cases[inflightCase[w]]))
					os.Exit(3)
				}
			}
			mu.Unlock()
		}
	}
	out := bufio.NewWriterSize(os.Stdout, 1<<20)
	for _, l := range res {
		out.Write(l)
	}
	out.Flush()
}

// ---------------------------------------------------------------- probe
// input: {"id":n, "api":"sen.Parser.Parse", "probes":[[bytes],...]}; output {"id":n,"k":first rejected probe (1-based) or 0}
func probe() {
	out := bufio.NewWriterSize(os.Stdout, 1<<20)
	defer out.Flush()
	readLines(os.Stdin, func(l []byte) {
		var p struct {
			ID     int     `json:"id"`
			API    string  `json:"api"`
			Probes [][]int `json:"probes"`
		}
		if err := json.Unmarshal(l, &p); err != nil {
			panic(err)
		}
		api := strings.TrimSuffix(p.API, "@multi")
		k := 0
		for i, pr := range p.Probes {
			o := call(api, plib.Bytes(pr))
			if o.R != 1 {
				k = i + 1
				break
			}
		}
		out.Write(plib.MarshalLine(map[string]int{"id": p.ID, "k": k}))
	})
}
