package main

import (
	"reflect"
	"strconv"

	"github.com/ohler55/ojg/jp"

	"verif/harness/absval"
)

// shapeOf projects a jp.Script onto the tree structure of its (private) prefix program: {"op": name, "l":…, "r":…} for
// operators, {"op":"const","v":abs} / {"op":"path"} for operands. jp offers no reliable public view of the structure
// (Script.Inspect reads two operands for every operator, also for ! and for parenthesis groups), so the program is read
// with reflection; if its layout changes the projection degrades to {"op":"?"} and the structure law is simply not judged.
// loose: numbers are written by value only (2e3 prints as 2000 and reads back as an integer: same number)
func numLeaf(loose bool, f float64, isInt bool, i int64) any {
	if loose {
		return map[string]any{"op": "const", "v": map[string]any{"t": "num", "s": strconv.FormatFloat(f, 'g', -1, 64)}}
	}
	if isInt {
		return map[string]any{"op": "const", "v": absval.Encode(i)}
	}
	return map[string]any{"op": "const", "v": absval.Encode(f)}
}

func shapeOf(sc *jp.Script) any { return shapeOfL(sc, false) }

func shapeOfL(sc *jp.Script, loose bool) (res any) {
	unknown := map[string]any{"op": "?"}
	defer func() {
		if r := recover(); r != nil {
			res = unknown
		}
	}()
	if sc == nil {
		return unknown
	}
	tmpl := reflect.ValueOf(sc).Elem().FieldByName("template")
	if !tmpl.IsValid() || tmpl.Kind() != reflect.Slice {
		return unknown
	}
	pos := 0
	var next func() any
	next = func() any {
		if tmpl.Len() <= pos {
			return map[string]any{"op": "const", "v": map[string]any{"t": "null"}}
		}
		v := tmpl.Index(pos)
		pos++
		if v.Kind() == reflect.Interface {
			if v.IsNil() {
				return map[string]any{"op": "const", "v": map[string]any{"t": "null"}}
			}
			v = v.Elem()
		}
		if v.Kind() == reflect.Ptr && v.Type().String() == "*jp.op" {
			o := v.Elem()
			name := o.FieldByName("name").String()
			cnt := int(o.FieldByName("cnt").Uint())
			if loose && name == "(" && cnt == 1 { // a parenthesis group is transparent
				return next()
			}
			m := map[string]any{"op": name}
			if 1 <= cnt {
				m["l"] = next()
			}
			if 2 <= cnt {
				m["r"] = next()
			}
			return m
		}
		switch v.Kind() {
		case reflect.Bool:
			return map[string]any{"op": "const", "v": absval.Encode(v.Bool())}
		case reflect.Int, reflect.Int8, reflect.Int16, reflect.Int32, reflect.Int64:
			if v.Type().String() == "jp.nothing" {
				return map[string]any{"op": "const", "v": map[string]any{"t": "nothing"}}
			}
			return numLeaf(loose, float64(v.Int()), true, v.Int())
		case reflect.Float32, reflect.Float64:
			return numLeaf(loose, v.Float(), false, 0)
		case reflect.String:
			return map[string]any{"op": "const", "v": absval.Encode(v.String())}
		case reflect.Ptr:
			if v.Type().String() == "*regexp.Regexp" {
				return map[string]any{"op": "const", "v": map[string]any{"t": "rx", "p": ints(v.Elem().FieldByName("expr").String())}}
			}
		case reflect.Slice:
			if v.Type().String() == "jp.Expr" {
				return map[string]any{"op": "path"}
			}
			return map[string]any{"op": "const", "v": map[string]any{"t": "list"}}
		}
		return map[string]any{"op": "const", "v": map[string]any{"t": "other"}}
	}
	root := next()
	if pos != tmpl.Len() {
		return unknown
	}
	return root
}
