// Command jptext drives the JSONPath / script TEXT parser of jp for the extension check XJPTEXT.
//
//	jptext mutate -bases N [-alpha full|small]  < valid.ndjson > cases.ndjson  (valid texts + one-byte mutations of a seeded sample)
//	jptext exec                                  < cases.ndjson > trace.ndjson  (accept / reject / panic / hang + projection)
//
// A case is {api: "ParseString" | "NewScript", b: [bytes]}. The projection of an accepted path is its fragment sequence read
// through the exported fragment types (a filter's script through the structure of its program), of a script its program.
package main

import (
	"bufio"
	"encoding/json"
	"flag"
	"fmt"
	"math/rand"
	"os"
	"runtime"
	"strconv"
	"sync"
	"time"

	"github.com/ohler55/ojg/jp"
)

type tcase struct {
	API string `json:"api"`
	B   []int  `json:"b"`
	Src string `json:"src,omitempty"`
}

type event struct {
	API string `json:"api"`
	B   []int  `json:"b"`
	Src string `json:"src,omitempty"`
	R   int    `json:"r"`  // 0 error, 1 accepted, 2 panic, 3 hang
	M   string `json:"m"`  // error / panic text
	Fr  []any  `json:"fr"` // ParseString: projection of the fragments
	Tr  any    `json:"tr"` // NewScript: projection of the program
	P1  string `json:"p1"` // canonical text of the projection
	E2  int    `json:"e2"` // String() of the result parsed again: 0 error, 1 ok, -1 not applicable
	P2  string `json:"p2"` // canonical text of the projection of the re-parsed value
	S   []int  `json:"s"`  // the String() that was re-parsed
}

func ints(s string) []int {
	r := make([]int, len(s))
	for i, c := range []byte(s) {
		r[i] = int(c)
	}
	return r
}

func bstr(b []int) string {
	x := make([]byte, len(b))
	for i, c := range b {
		x[i] = byte(c)
	}
	return string(x)
}

func clip(s string) string {
	if len(s) > 100 {
		return s[:100]
	}
	return s
}

var noShape = map[string]any{"op": "?"}

// project reads the fragments through the exported types.
func project(x jp.Expr) []any { return projectL(x, false) }

func projectL(x jp.Expr, loose bool) []any {
	out := make([]any, 0, len(x))
	for _, f := range x {
		switch tf := f.(type) {
		case jp.Root:
			out = append(out, map[string]any{"f": "root"})
		case jp.At:
			out = append(out, map[string]any{"f": "at"})
		case jp.Bracket:
			out = append(out, map[string]any{"f": "bracket"})
		case jp.Child:
			out = append(out, map[string]any{"f": "child", "k": ints(string(tf))})
		case jp.Nth:
			out = append(out, map[string]any{"f": "nth", "i": int(tf)})
		case jp.Wildcard:
			out = append(out, map[string]any{"f": "wild"})
		case jp.Descent:
			out = append(out, map[string]any{"f": "desc"})
		case jp.Union:
			us := make([]any, len(tf))
			for i, u := range tf {
				switch tu := u.(type) {
				case string:
					us[i] = map[string]any{"is": true, "k": ints(tu)}
				case int64:
					us[i] = map[string]any{"is": false, "i": tu}
				default:
					us[i] = map[string]any{"is": false, "i": -999999}
				}
			}
			out = append(out, map[string]any{"f": "union", "u": us})
		case jp.Slice:
			// start, end (2147483647 = to the end), step (absent = 1)
			s := []int{0, 2147483647, 1}
			for i := 0; i < len(tf) && i < 3; i++ {
				s[i] = tf[i]
			}
			m := map[string]any{"f": "slice", "s": s}
			if 3 < len(tf) {
				m["extra"] = len(tf)
			}
			out = append(out, m)
		case *jp.Filter:
			out = append(out, map[string]any{"f": "filter", "tree": shapeOfL(&tf.Script, loose)})
		case *jp.Proc:
			out = append(out, map[string]any{"f": "proc"})
		default:
			out = append(out, map[string]any{"f": fmt.Sprintf("%T", f)})
		}
	}
	return out
}

func canon(v any) string {
	b, _ := json.Marshal(v)
	return string(b)
}

// loose projections (numbers by value) for the comparison of a result with its String() parsed again
func looseFr(x jp.Expr) string     { return canon(projectL(x, true)) }
func looseTr(sc *jp.Script) string { return canon(shapeOfL(sc, true)) }

func runOne(c *tcase) *event { return runOneT(c, 10*time.Second) }

func runOneT(c *tcase, limit time.Duration) *event {
	ev := &event{API: c.API, B: c.B, Src: c.Src, Fr: []any{}, Tr: noShape, E2: -1, S: []int{}}
	text := bstr(c.B)
	done := make(chan struct{})
	go func() {
		defer close(done)
		defer func() {
			if r := recover(); r != nil {
				ev.R, ev.M = 2, clip(fmt.Sprint(r))
			}
		}()
		switch c.API {
		case "ParseString":
			x, err := jp.ParseString(text)
			if err != nil {
				ev.R, ev.M = 0, clip(err.Error())
				return
			}
			ev.R = 1
			ev.Fr = project(x)
			ev.P1 = looseFr(x)
			s := x.String()
			ev.S = ints(s)
			if y, err2 := jp.ParseString(s); err2 != nil {
				ev.E2 = 0
			} else {
				ev.E2 = 1
				ev.P2 = looseFr(y)
			}
		case "NewScript":
			sc, err := jp.NewScript(text)
			if err != nil {
				ev.R, ev.M = 0, clip(err.Error())
				return
			}
			ev.R = 1
			ev.Tr = shapeOf(sc)
			ev.P1 = looseTr(sc)
			s := sc.String()
			ev.S = ints(s)
			if sc2, err2 := jp.NewScript(s); err2 != nil {
				ev.E2 = 0
			} else {
				ev.E2 = 1
				ev.P2 = looseTr(sc2)
			}
		}
	}()
	select {
	case <-done:
	case <-time.After(limit):
		return &event{API: c.API, B: c.B, Src: c.Src, R: 3, M: "no result after " + limit.String(), Fr: []any{}, Tr: noShape, E2: -1, S: []int{}}
	}
	return ev
}

func readCases() []*tcase {
	var cs []*tcase
	sc := bufio.NewScanner(os.Stdin)
	sc.Buffer(make([]byte, 1<<20), 1<<26)
	for sc.Scan() {
		if len(sc.Bytes()) == 0 {
			continue
		}
		var c tcase
		if err := json.Unmarshal(sc.Bytes(), &c); err != nil {
			fmt.Fprintln(os.Stderr, "bad case:", err)
			os.Exit(2)
		}
		cs = append(cs, &c)
	}
	return cs
}

func execAll() {
	cs := readCases()
	out := make([][]byte, len(cs))
	var slowMu sync.Mutex
	var slow []int
	var wg sync.WaitGroup
	nw := runtime.NumCPU()
	if nw > 8 {
		nw = 8
	}
	for w := 0; w < nw; w++ {
		wg.Add(1)
		go func(w int) {
			defer wg.Done()
			for i := w; i < len(cs); i += nw {
				ev := runOne(cs[i])
				if ev.R == 3 { // on a loaded machine a slow case is not a hang: it is run again alone at the end
					slowMu.Lock()
					slow = append(slow, i)
					slowMu.Unlock()
				}
				b, err := json.Marshal(ev)
				if err != nil {
					fmt.Fprintln(os.Stderr, "marshal:", err)
					os.Exit(2)
				}
				out[i] = b
			}
		}(w)
	}
	wg.Wait()
	for _, i := range slow {
		out[i], _ = json.Marshal(runOneT(cs[i], 60*time.Second))
	}
	wr := bufio.NewWriterSize(os.Stdout, 1<<20)
	for _, b := range out {
		wr.Write(b)
		wr.WriteByte('\n')
	}
	wr.Flush()
}

// texts taken from the documentation (README, Goessner's article, cmd/oj help, CHANGELOG)
var docTexts = []string{
	"a[?(@.x > 1)].y", "$.store.book[*].author", "$..author", "$.store.*", "$.store..price", "$..book[2]", "$..book[-1:]", "$..book[0,1]",
	"$..book[:2]", "$..book[?(@.isbn)]", "$..book[?(@.price<10)]", "$..*", "$.x[?(@.y == 'z')].value", "$.data[?(@.id == $.key)]", "[?@.x == 3]",
	"$[?(@.x == 3)]", "@.x[?(@.y > 1)]", "$['store']['book'][0]['title']", "$[?length(@.x) == 3]", "$[?(!@.x)]", "$[?(!(@.x == 2))]",
	"$[?(@.a in [1,'a'])]", "$[?(@.a =~ /abc/)]", "$[?(@.a has true)]", "$[?(@.a exists false)]", "$[?(@.a empty true)]",
}
var docScripts = []string{"(@.name == 'Pete')", "(@.x == Nothing)", "(@.x has false)", "(@.x exists false)", "(@.text ~= /(?i)expected/ && !(@.text ~= /(?i)notexpected/))"}

var alphaFull = []byte("$@.*[]()'\"\\,:?!=<>&|~+-/ 01aux;{}#`\x00\n\t\x7f\x80\xff")
var alphaSmall = []byte("$@.*[]()'\"\\,:?!=<& -/ 0a\x00\t`\x80")

func mutate(nbases int, alpha []byte, seed int64) {
	cs := readCases()
	for _, t := range docTexts {
		cs = append(cs, &tcase{API: "ParseString", B: ints(t), Src: "doc"})
	}
	for _, t := range docScripts {
		cs = append(cs, &tcase{API: "NewScript", B: ints(t), Src: "doc"})
	}
	wr := bufio.NewWriterSize(os.Stdout, 1<<20)
	seen := map[string]bool{}
	emit := func(api string, b []byte, src string) {
		key := api + "\x00" + string(b)
		if seen[key] {
			return
		}
		seen[key] = true
		j, _ := json.Marshal(&tcase{API: api, B: ints(string(b)), Src: src})
		wr.Write(j)
		wr.WriteByte('\n')
	}
	for _, c := range cs {
		emit(c.API, []byte(bstr(c.B)), c.Src)
	}
	// bases: every documentation text, and a seeded sample of the generated texts spread over the whole list
	rng := rand.New(rand.NewSource(seed))
	n := len(cs)
	pick := map[int]bool{}
	for i := range cs {
		if cs[i].Src == "doc" {
			pick[i] = true
		}
	}
	for len(pick) < nbases && len(pick) < n {
		pick[rng.Intn(n)] = true
	}
	for i := 0; i < n; i++ {
		if !pick[i] {
			continue
		}
		b := []byte(bstr(cs[i].B))
		api := cs[i].API
		for p := 0; p <= len(b); p++ {
			if p < len(b) {
				emit(api, append(append([]byte{}, b[:p]...), b[p+1:]...), "del") // delete
				emit(api, b[:p], "trunc")                                        // truncate
			}
			for _, a := range alpha {
				emit(api, append(append(append([]byte{}, b[:p]...), a), b[p:]...), "ins") // insert
				if p < len(b) && b[p] != a {
					r := append([]byte{}, b...)
					r[p] = a
					emit(api, r, "rep") // replace
				}
			}
		}
	}
	wr.Flush()
}

func main() {
	if len(os.Args) < 2 {
		fmt.Fprintln(os.Stderr, "usage: jptext mutate|exec")
		os.Exit(2)
	}
	fs := flag.NewFlagSet(os.Args[1], flag.ExitOnError)
	nb := fs.Int("bases", 100, "number of texts that are mutated")
	al := fs.String("alpha", "small", "mutation alphabet: small|full")
	fs.Parse(os.Args[2:])
	seed, err := strconv.ParseInt(os.Getenv("VERIF_SEED"), 10, 64)
	if err != nil || seed == 0 {
		seed = 1
	}
	switch os.Args[1] {
	case "mutate":
		a := alphaSmall
		if *al == "full" {
			a = alphaFull
		}
		mutate(*nb, a, seed)
	case "exec":
		execAll()
	default:
		fmt.Fprintln(os.Stderr, "unknown mode", os.Args[1])
		os.Exit(2)
	}
}
